// Driver around the REAL compiler and VM (path dependency on /repo/abra_core):
//   dump <dir> <main.abra>                 -> {:?} of the CompiledProgram (parsed by /verif/symex)
//   run  <dir> <main.abra> [budget] [max]  -> one JSON line: status, printed output, final value
//   check <dir> <main.abra>                -> "OK" or the diagnostics
// ABRA_VERIF_NO_OPT=1 (with --cfg abra_verif) disables the peephole optimizer.
use abra_core::vm::{Runtime, RuntimeStatusKind};
use abra_core::{OsFileProvider, VmType};
use std::path::PathBuf;

fn esc(s: &str) -> String {
    let mut o = String::new();
    for c in s.chars() {
        match c {
            '"' => o.push_str("\\\""),
            '\\' => o.push_str("\\\\"),
            '\n' => o.push_str("\\n"),
            '\r' => o.push_str("\\r"),
            '\t' => o.push_str("\\t"),
            c if (c as u32) < 0x20 => o.push_str(&format!("\\u{:04x}", c as u32)),
            c => o.push(c),
        }
    }
    o
}

fn provider(dir: &str) -> Box<OsFileProvider> {
    let modules = std::env::var("ABRA_MODULES_DIR").unwrap_or_else(|_| "/repo/modules".to_string());
    OsFileProvider::new(PathBuf::from(dir), PathBuf::from(modules), vec![])
}

fn main() {
    let args: Vec<String> = std::env::args().collect();
    if args.len() < 4 {
        eprintln!("usage: driver dump|run|check <dir> <main.abra> [budget] [max_steps]");
        std::process::exit(2);
    }
    let (cmd, dir, main_file) = (args[1].as_str(), args[2].as_str(), args[3].as_str());
    match cmd {
        "check" => match abra_core::check(main_file, provider(dir)) {
            Ok(()) => println!("OK"),
            Err(e) => {
                println!("ERR");
                println!("{}", e);
            }
        },
        "dump" => match abra_core::compile_bytecode(main_file, provider(dir)) {
            Ok(p) => println!("{:?}", p),
            Err(e) => {
                println!("COMPILE_ERROR");
                println!("{}", e);
                std::process::exit(3);
            }
        },
        "run" => {
            let budget: u32 = args.get(4).and_then(|s| s.parse().ok()).unwrap_or(1000);
            let max_steps: u64 = args.get(5).and_then(|s| s.parse().ok()).unwrap_or(50_000_000);
            let program = match abra_core::compile_bytecode(main_file, provider(dir)) {
                Ok(p) => p,
                Err(e) => {
                    println!("{{\"status\":\"compile_error\",\"message\":\"{}\"}}", esc(&e.to_string()));
                    std::process::exit(3);
                }
            };
            let mut rt = Runtime::new(program);
            let mut out = String::new();
            let mut total: u64 = 0;
            let status: String;
            let mut errtext = String::new();
            loop {
                let st = rt.run_n_steps(budget);
                total += st.steps_consumed as u64;
                match &st.kind {
                    RuntimeStatusKind::Done => {
                        status = "done".into();
                        break;
                    }
                    RuntimeStatusKind::MainThreadError(e) => {
                        let text = format!("{}", e);
                        status = if text.starts_with("error: indexed past") {
                            "ArrayOutOfBounds"
                        } else if text.starts_with("panic:") {
                            "Panic"
                        } else if text.starts_with("error: integer overflow") {
                            "IntegerOverflowUnderflow"
                        } else if text.starts_with("error: division by zero") {
                            "DivisionByZero"
                        } else {
                            "InternalError"
                        }
                        .into();
                        errtext = text;
                        break;
                    }
                    _ => {}
                }
                for thread in rt.iter_threads_mut() {
                    if let Some(id) = thread.get_pending_host_func() {
                        match id {
                            // prelude host functions are numbered in name order:
                            // 0 eprint_string, 1 get_args, 2 print_string, 3 readline
                            0 | 2 => {
                                let s = String::from_vm(&mut *thread);
                                if id == 2 {
                                    out.push_str(&s);
                                }
                            }
                            1 => Vec::<String>::new().to_vm(&mut *thread),
                            3 => String::new().to_vm(&mut *thread),
                            other => {
                                println!("{{\"status\":\"unknown_host_func\",\"id\":{}}}", other);
                                std::process::exit(4);
                            }
                        }
                        thread.clear_pending_host_func();
                    }
                }
                if total > max_steps {
                    status = "step_limit".into();
                    break;
                }
                if budget == 0 {
                    status = "zero_budget".into();
                    break;
                }
            }
            let top = if status == "done" {
                let has = std::panic::catch_unwind(std::panic::AssertUnwindSafe(|| rt.top()));
                match has {
                    Ok(v) => {
                        let dbg = format!("{:?}", v);
                        if dbg.ends_with("String)") {
                            format!("{} = {:?}", dbg, v.view_string(rt.main()))
                        } else {
                            dbg
                        }
                    }
                    Err(_) => "empty".to_string(),
                }
            } else {
                "none".to_string()
            };
            println!(
                "{{\"status\":\"{}\",\"output\":\"{}\",\"top\":\"{}\",\"steps\":{},\"error\":\"{}\"}}",
                status,
                esc(&out),
                esc(&top),
                total,
                esc(&errtext)
            );
        }
        _ => {
            eprintln!("unknown command");
            std::process::exit(2);
        }
    }
}
