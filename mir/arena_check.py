"""Engine M (C38): symbolic execution of the nightly MIR of utils::arena::Arena::alloc<T> into z3 bit-vectors.

One inductive step: pre-state (offset, current buffer (base, len)) symbolic under the invariant
  I:  offset <= len   (every earlier allocation of the current buffer lies in [0, offset))
with symbolic size_of::<T>() / align_of::<T>() constrained as Rust guarantees.  The MIR is
re-dumped from /repo's current source on every run; unknown statements make the check inconclusive.
"""
import os
import re
import shutil
import subprocess
import sys
import time

sys.path.insert(0, os.path.join(os.path.dirname(os.path.abspath(__file__)), "..", "lib"))
import z3  # noqa: E402
from vcommon import REPO, VERIF, base_env, scratch_dir  # noqa: E402

W = 64
SIZE_BOUND = 1 << 40  # stated bound on size_of::<T>()
STATE_BOUND = 1 << 48  # stated bound on offset / buffer length


class Unknown(Exception):
    pass


def dump_mir():
    d = scratch_dir("M_arena")
    u = os.path.join(d, "utils")
    shutil.copytree(os.path.join(REPO, "utils"), u, ignore=shutil.ignore_patterns("target"))
    ct = open(os.path.join(u, "Cargo.toml")).read()
    ct = re.sub(r"rustc-hash\s*=.*", 'rustc-hash = "2.1.2"', ct)
    ct = ct.replace("utils = { workspace = true }", "")
    if "[workspace]" not in ct:
        ct += "\n[workspace]\n"
    open(os.path.join(u, "Cargo.toml"), "w").write(ct)
    shutil.copy(os.path.join(REPO, "Cargo.lock"), os.path.join(u, "Cargo.lock"))
    env = base_env()
    r = subprocess.run(["cargo", "+nightly", "rustc", "--offline", "--lib", "--", "-Zunpretty=mir", "-C", "debug-assertions=off",
                        "-C", "overflow-checks=on"], cwd=u, env=env, capture_output=True, text=True)
    if r.returncode != 0:
        raise Unknown("MIR dump failed: " + r.stderr[-800:])
    return r.stdout, u


def extract_fn(mir, name_re):
    m = re.search(r"^fn [^\n]*" + name_re + r"[^\n]*\{\n(.*?)^\}\n", mir, flags=re.S | re.M)
    if not m:
        raise Unknown("function not found in MIR: " + name_re)
    return m.group(0)


def parse_blocks(text):
    blocks = {}
    for m in re.finditer(r"^    (bb\d+)(?: \(cleanup\))?: \{\n(.*?)^    \}", text, flags=re.S | re.M):
        stmts = [s.strip() for s in m.group(2).split("\n") if s.strip()]
        blocks[m.group(1)] = stmts
    return blocks


# ---------------------------------------------------------------- symbolic values
class Buf:
    def __init__(self, base, length, name):
        self.base, self.len, self.name = base, length, name


class Ptr:
    def __init__(self, buf, off):
        self.buf, self.off = buf, off


class FieldRef:
    def __init__(self, field):
        self.field = field


class Executor:
    def __init__(self, blocks):
        self.blocks = blocks
        self.s = z3.Solver()
        self.obligations = []  # (name, condition that must hold, path condition)
        self.summaries = set()
        self.stmts_seen = 0
        bv = lambda n: z3.BitVec(n, W)  # noqa: E731
        self.size, self.align = bv("size_of_T"), bv("align_of_T")
        self.offset0, self.base0, self.len0 = bv("offset"), bv("cur_base"), bv("cur_len")
        self.newbase = bv("new_base")
        self.pre = [
            z3.ULE(self.offset0, self.len0),  # invariant I
            z3.ULT(self.len0, STATE_BOUND), z3.ULT(self.size, SIZE_BOUND),
            self.align != 0, (self.align & (self.align - 1)) == 0, z3.ULE(self.align, 1 << 12),
            z3.URem(self.size, self.align) == 0,
            # allocations do not wrap the address space
            z3.ULT(self.base0, 1 << 62), z3.ULT(self.newbase, 1 << 62), self.base0 != 0, self.newbase != 0,
        ]
        self.results = []  # final states

    def run(self):
        st = {
            "locals": {}, "pc": [],
            "inner": {"0": Buf(self.base0, self.len0, "current"), "1": "old_bufs", "2": self.offset0},
            "switched": False, "write": None,
        }
        self._exec("bb0", st, 0)

    # operand / place evaluation
    def place(self, st, p):
        p = p.strip()
        p = re.sub(r"^(copy|move|no_retag copy)\s+", "", p).strip()
        m = re.fullmatch(r"_(\d+)", p)
        if m:
            return st["locals"][p]
        m = re.fullmatch(r"\(\(\*_(\d+)\)\.(\d+): [^)]*(?:\([^)]*\)[^)]*)*\)", p) or re.fullmatch(r"\(\(\*_(\d+)\)\.(\d+): .*\)", p)
        if m:
            ref = st["locals"]["_" + m.group(1)]
            if ref != "inner":
                raise Unknown("deref of non-inner pointer: " + p)
            return st["inner"][m.group(2)]
        m = re.fullmatch(r"\((.+)\.(\d+): .*\)", p)
        if m:
            inner = self.place(st, m.group(1))
            if isinstance(inner, tuple):
                return inner[int(m.group(2))]
            if isinstance(inner, Buf):  # Box -> Unique -> NonNull: same buffer
                return inner
            raise Unknown("projection of unsupported value: " + p)
        raise Unknown("place: " + p)

    def operand(self, st, o):
        o = o.strip()
        m = re.fullmatch(r"const (\d+)_usize", o)
        if m:
            return z3.BitVecVal(int(m.group(1)), W)
        if o == "const false":
            return z3.BoolVal(False)
        if o == "const true":
            return z3.BoolVal(True)
        return self.place(st, o)

    def oblige(self, name, cond, st):
        self.obligations.append((name, cond, list(st["pc"])))

    def _exec(self, bb, st, depth):
        if depth > 60:
            raise Unknown("block depth exceeded")
        for stmt in self.blocks[bb]:
            self.stmts_seen += 1
            nxt = self.step(stmt, st)
            if nxt is None:
                continue
            if nxt == "return":
                self.results.append(st)
                return
            if isinstance(nxt, list):  # branch: [(cond, bb), ...]
                for cond, tgt in nxt:
                    st2 = {"locals": dict(st["locals"]), "pc": st["pc"] + [cond], "inner": dict(st["inner"]),
                           "switched": st["switched"], "write": st["write"]}
                    self.s.push()
                    self.s.add(*self.pre, *st2["pc"])
                    feasible = self.s.check() == z3.sat
                    self.s.pop()
                    if feasible:
                        self._exec(tgt, st2, depth + 1)
                return
            self._exec(nxt, st, depth + 1)
            return
        raise Unknown("block without terminator: " + bb)

    def step(self, stmt, st):
        L = st["locals"]
        if stmt.startswith("StorageLive") or stmt.startswith("StorageDead") or stmt.startswith("nop"):
            return None
        if stmt == "return;":
            return "return"
        m = re.fullmatch(r"goto -> (bb\d+);", stmt)
        if m:
            return m.group(1)
        m = re.fullmatch(r"switchInt\((?:move|copy) (.+?)\) -> \[0: (bb\d+), otherwise: (bb\d+)\];", stmt)
        if m:
            c = self.operand(st, m.group(1))
            return [(z3.Not(c), m.group(2)), (c, m.group(3))]
        m = re.fullmatch(r'assert\(!move (.+?), "(.*?)"(?:, .*)?\) -> \[success: (bb\d+), unwind: bb\d+\];', stmt)
        if m:
            c = self.operand(st, m.group(1))
            self.oblige("no arithmetic panic: " + m.group(2)[:48], z3.Not(c), st)
            st["pc"].append(z3.Not(c))
            return m.group(3)
        # calls
        m = re.fullmatch(r"(_\d+) = (.+?)\((.*)\) -> \[return: (bb\d+), unwind: bb\d+\];", stmt)
        if m:
            dst, fn, args, nxt = m.group(1), m.group(2), m.group(3), m.group(4)
            argv = [a.strip() for a in args.split(",")] if args.strip() else []
            self.call(st, dst, fn, argv)
            return nxt
        # assignments
        m = re.fullmatch(r"(.+?) = (.+);", stmt)
        if not m:
            raise Unknown("statement: " + stmt)
        dst, rhs = m.group(1).strip(), m.group(2).strip()
        val = self.rvalue(st, rhs)
        md = re.fullmatch(r"\(\(\*_(\d+)\)\.(\d+): .*\)", dst)
        if md:
            if L["_" + md.group(1)] != "inner":
                raise Unknown("store through non-inner pointer")
            st["inner"][md.group(2)] = val
        elif re.fullmatch(r"_\d+", dst):
            L[dst] = val
        else:
            raise Unknown("assignment target: " + dst)
        return None

    def rvalue(self, st, rhs):
        L = st["locals"]
        m = re.fullmatch(r"(Eq|Gt|Lt|Ge|Le|Ne|Rem|Add|Sub)\((.+), (.+)\)", rhs)
        if m:
            a, b = self.operand(st, m.group(2)), self.operand(st, m.group(3))
            return {"Eq": a == b, "Ne": a != b, "Gt": z3.UGT(a, b), "Lt": z3.ULT(a, b), "Ge": z3.UGE(a, b),
                    "Le": z3.ULE(a, b), "Rem": z3.URem(a, b), "Add": a + b, "Sub": a - b}[m.group(1)]
        m = re.fullmatch(r"(Add|Sub|Mul)WithOverflow\((.+), (.+)\)", rhs)
        if m:
            a, b = self.operand(st, m.group(2)), self.operand(st, m.group(3))
            if m.group(1) == "Add":
                return (a + b, z3.ULT(a + b, a))
            if m.group(1) == "Sub":
                return (a - b, z3.ULT(a, b))
            return (a * b, z3.UGE(z3.ZeroExt(W, a) * z3.ZeroExt(W, b), z3.BitVecVal(1 << W, 2 * W)))
        m = re.fullmatch(r"PtrMetadata\((?:move|copy) (.+)\)", rhs)
        if m:
            v = self.operand(st, m.group(1))
            if not isinstance(v, Buf):
                raise Unknown("PtrMetadata of non-slice")
            return v.len
        m = re.fullmatch(r"&(?:mut )?\(\*(_\d+)\)", rhs)
        if m:
            return L[m.group(1)]  # reborrow: same referent
        m = re.fullmatch(r"&(?:mut )?\(\(\*(_\d+)\)\.(\d+): .*\)", rhs)
        if m:
            base = L[m.group(1)]
            if base == "arena" and m.group(2) == "0":
                return "cell"
            if base == "inner":
                return FieldRef(m.group(2))
            raise Unknown("borrow: " + rhs)
        m = re.fullmatch(r"(.+) as .+ \((Transmute|PtrToPtr)\)", rhs)
        if m:
            return self.operand(st, m.group(1))
        m = re.fullmatch(r"(.+) as usize \((PointerExposeProvenance|PointerExposeAddress)\)", rhs)
        if m:
            p = self.operand(st, m.group(1))
            if not isinstance(p, Ptr):
                raise Unknown("pointer-to-int cast of non-pointer")
            return p.buf.base + p.off
        if rhs.startswith("copy ") or rhs.startswith("move ") or rhs.startswith("no_retag copy ") or rhs.startswith("const "):
            return self.operand(st, rhs)
        raise Unknown("rvalue: " + rhs)

    def call(self, st, dst, fn, argv):
        L = st["locals"]
        self.summaries.add(fn)
        if fn.startswith("UnsafeCell::") and fn.endswith("::get"):
            L[dst] = "inner"
        elif fn.startswith("std::mem::align_of::<"):
            L[dst] = self.align
        elif fn.startswith("std::mem::size_of::<"):
            L[dst] = self.size
        elif fn == "<usize as Ord>::max":
            a, b = self.operand(st, argv[0]), self.operand(st, argv[1])
            L[dst] = z3.If(z3.UGE(a, b), a, b)
        elif fn == "<usize as Ord>::min":
            a, b = self.operand(st, argv[0]), self.operand(st, argv[1])
            L[dst] = z3.If(z3.ULE(a, b), a, b)
        elif "new_uninit_slice" in fn:
            n = self.operand(st, argv[0])
            self.oblige("allocation request within isize::MAX", z3.ULT(n, 1 << 63), st)
            L[dst] = Buf(self.newbase, n, "new")
        elif fn.startswith("std::mem::replace::<"):
            ref = self.operand(st, argv[0])
            if not isinstance(ref, FieldRef):
                raise Unknown("mem::replace target")
            L[dst] = st["inner"][ref.field]
            st["inner"][ref.field] = self.operand(st, argv[1])
            st["switched"] = True
        elif fn.startswith("Vec::<") and fn.endswith("::push"):
            L[dst] = None  # the old buffer stays alive in old_bufs
        elif fn.endswith("::as_mut_ptr") or fn.endswith("::as_ptr"):
            v = self.operand(st, argv[0])
            if not isinstance(v, Buf):
                raise Unknown("as_mut_ptr of non-slice")
            L[dst] = Ptr(v, z3.BitVecVal(0, W))
        elif re.search(r"::add$", fn):
            p, n = self.operand(st, argv[0]), self.operand(st, argv[1])
            if not isinstance(p, Ptr):
                raise Unknown("ptr::add on non-pointer")
            self.oblige("pointer arithmetic stays inside the buffer (ptr::add)", z3.ULE(p.off + n, p.buf.len), st)
            self.oblige("pointer arithmetic does not wrap", z3.UGE(p.off + n, p.off), st)
            L[dst] = Ptr(p.buf, p.off + n)
        elif fn.startswith("std::ptr::write::<"):
            p = self.operand(st, argv[0])
            if not isinstance(p, Ptr):
                raise Unknown("ptr::write through non-pointer")
            cur = st["inner"]["0"]
            self.oblige("write goes to the buffer that is current after the call", z3.BoolVal(p.buf is cur), st)
            self.oblige("write lies inside the buffer", z3.And(z3.ULE(p.off, p.buf.len), z3.ULE(self.size, p.buf.len - p.off)), st)
            if not st["switched"]:
                self.oblige("write does not overlap earlier allocations [0, offset)", z3.UGE(p.off, self.offset0), st)
            self.oblige("write is aligned in memory (the buffer base is only guaranteed byte alignment)",
                        z3.URem(p.buf.base + p.off, self.align) == 0, st)
            st["write"] = p
            L[dst] = None
        elif fn.startswith("Ar::<") and fn.endswith("::new"):
            L[dst] = self.operand(st, argv[0])
        else:
            raise Unknown("call without summary: " + fn)
        return None


def check(mir_text):
    fn = extract_fn(mir_text, r"::alloc\(")
    blocks = parse_blocks(fn)
    ex = Executor(blocks)
    ex.blocks = blocks
    # entry: _1 = &Arena
    t0 = time.time()
    ex_locals_init = {"_1": "arena", "_2": "value"}
    # patch run() to seed locals
    orig_run = ex.run

    def run():
        st = {"locals": dict(ex_locals_init), "pc": [],
              "inner": {"0": Buf(ex.base0, ex.len0, "current"), "1": "old_bufs", "2": ex.offset0},
              "switched": False, "write": None}
        ex._exec("bb0", st, 0)
    run()
    # post-state invariant per final state
    for st in ex.results:
        cur = st["inner"]["0"]
        ex.obligations.append(("invariant re-established: offset <= len of the current buffer", z3.ULE(st["inner"]["2"], cur.len), list(st["pc"])))
        if st["write"] is not None:
            ex.obligations.append(("offset advances past the new allocation", st["inner"]["2"] == st["write"].off + ex.size, list(st["pc"])))
    results = []
    solver_s = 0.0
    for name, cond, pc in ex.obligations:
        s = z3.Solver()
        s.set("timeout", 60000)
        s.add(*ex.pre, *pc, z3.Not(cond))
        t1 = time.time()
        r = s.check()
        solver_s += time.time() - t1
        model = None
        if r == z3.sat:
            m = s.model()
            model = {str(d): m[d].as_long() for d in m.decls()}
        results.append({"obligation": name, "verdict": ("holds" if r == z3.unsat else "violated" if r == z3.sat else "unknown"),
                        "model": model, "smt2": s.to_smt2()})
    return ex, results, solver_s, time.time() - t0


def cross_check_cvc5(results, limit=40):
    """Diff z3's verdicts against cvc5 on the same SMT-LIB2 text."""
    bad = []
    n = 0
    for r in results[:limit]:
        p = subprocess.run(["cvc5", "--lang", "smt2", "--tlimit=15000"], input=r["smt2"], capture_output=True, text=True)
        out = p.stdout.strip().splitlines()
        v = out[0] if out else "error"
        if "(error" in p.stdout or "(error" in p.stderr:
            bad.append((r["obligation"], "cvc5 error: " + (p.stdout + p.stderr)[:200]))
            continue
        if v not in ("sat", "unsat"):
            continue  # cvc5 timed out / unknown: no second opinion for this query (counted as not cross-checked)
        n += 1
        want = {"holds": "unsat", "violated": "sat"}.get(r["verdict"])
        if want and v != want:
            bad.append((r["obligation"], "z3=%s cvc5=%s" % (r["verdict"], v)))
    return n, bad


if __name__ == "__main__":
    mir, _ = dump_mir()
    ex, results, ss, wall = check(mir)
    for r in results:
        print(r["verdict"], "|", r["obligation"], "|", r["model"])
    print(cross_check_cvc5(results))
