"""C07 (release on drop) on engine M2: MIR of <VmGreenThread as Drop>::drop, ObjectHeader::dealloc and <VmSharedReadonly as Drop>::drop,
executed symbolically over heaps of k objects of symbolic kind and symbolic size (heap_size = sum of sizes: the accounting invariant).
Obligations: every object of the heap list / every string constant is released exactly once, as an object of its own kind, the
accounting returns to zero and no arithmetic check fails."""
import os
import re
import sys

sys.path.insert(0, os.path.join(os.path.dirname(os.path.abspath(__file__)), "..", "lib"))
import z3  # noqa: E402
from vcommon import REPO  # noqa: E402
import mirvm  # noqa: E402
from mirvm import BoxV, Enum, IterV, QueueV, Ref, Struct, Token, Unknown  # noqa: E402
from sched import enum_variants, struct_fields  # noqa: E402


class DropModel:
    def __init__(self, mir_text):
        vmrs = open(os.path.join(REPO, "abra_core", "src", "vm.rs")).read()
        self.tf = {n: i for i, n in enumerate(struct_fields(vmrs, "VmGreenThread"))}
        self.sf = {n: i for i, n in enumerate(struct_fields(vmrs, "VmSharedReadonly"))}
        self.kinds = enum_variants(vmrs, "ObjectKind")
        for need in ("heap_list", "heap_size"):
            if need not in self.tf:
                raise Unknown("VmGreenThread has no field %s" % need)
        if "static_strings" not in self.sf:
            raise Unknown("VmSharedReadonly has no field static_strings")
        allf = mirvm.parse_functions(mir_text)
        self.fn_thread = self.fn_shared = self.fn_dealloc = None
        for name, fn in allf.items():
            if re.search(r"::drop$", name) and fn.types.get("_1") == "&mut VmGreenThread":
                self.fn_thread = name
            if re.search(r"::drop$", name) and fn.types.get("_1") == "&mut VmSharedReadonly":
                self.fn_shared = name
            if re.search(r"::dealloc$", name) and fn.types.get("_1") == "&mut ObjectHeader":
                self.fn_dealloc = name
        self.fn_sweep = self.fn_hdr_nbytes = None
        for name, fn in allf.items():
            if re.search(r"::sweep$", name) and fn.types.get("_1") == "&mut VmGreenThread":
                self.fn_sweep = name
            if re.search(r"::nbytes$", name) and fn.types.get("_1") == "&ObjectHeader":
                self.fn_hdr_nbytes = name
        self.gc_states = enum_variants(vmrs, "GcState")
        if not (self.fn_thread and self.fn_dealloc):
            raise Unknown("no MIR for Drop for VmGreenThread / ObjectHeader::dealloc")
        self.allf = allf
        enums = {"Option": {"None": 0, "Some": 1}, "ObjectKind": self.kinds, "GcState": self.gc_states}
        self.m = mirvm.Machine(allf, self.resolver, self.summaries(), enums)

    def resolver(self, callee, fn):
        if callee == "ObjectHeader::dealloc":
            return self.fn_dealloc
        if callee == "ObjectHeader::nbytes" and self.fn_hdr_nbytes:
            return self.fn_hdr_nbytes
        return None

    def owner(self, ref):
        if not isinstance(ref, Ref) or ref.base[0] != "H":
            raise Unknown("pointer does not point into a heap object: %r" % (ref,))
        return ref.base[1]

    def summaries(self):
        D = self

        def into_iter(m, st, fn, callee, args, dty):
            return [(st, IterV(args[0], 0))]

        def iter_next(m, st, fn, callee, args, dty):
            it = m.load(st, args[0].base, args[0].proj)
            q = m.load(st, it.queue_ref.base, it.queue_ref.proj)
            if it.pos < len(q.items):
                r = Ref(it.queue_ref.base, it.queue_ref.proj + (("q", it.pos),))
                it.pos += 1
                return [(st, Enum("Option", 1, {1: [r]}))]
            return [(st, Enum("Option", 0, {}))]

        def kind_matches(m, st, obj, tyname, what):
            o = st.heap[obj]
            want = D.kinds.get(tyname.replace("Object", ""))
            if want is None:
                raise Unknown("unknown object type %s" % tyname)
            disc = o.f["hdr"].f[0].disc
            m.oblige("%s treats an object as %s although its header says otherwise" % (what, tyname), st, disc != want)

        def nbytes(m, st, fn, callee, args, dty):
            obj = D.owner(args[0])
            kind_matches(m, st, obj, callee.split("::")[0], "dealloc (nbytes)")
            if obj in st.ghost["dropped"]:
                m.oblige("an object is read after it was released", st, z3.BoolVal(True))
            return [(st, st.heap[obj].f["nbytes"])]

        def from_raw(m, st, fn, callee, args, dty):
            obj = D.owner(args[0])
            ty = re.search(r"Box::<(\w+)>::from_raw", callee).group(1)
            kind_matches(m, st, obj, ty, "Box::from_raw")
            return [(st, BoxV(obj))]

        def layout(m, st, fn, callee, args, dty):
            return [(st, Token("layout"))]

        def dealloc(m, st, fn, callee, args, dty):
            obj = D.owner(args[0])
            kind_matches(m, st, obj, "StructObject", "alloc::dealloc")
            st.ghost["dropped"].append(obj)
            return [(st, Token("unit"))]

        def vec_len(m, st, fn, callee, args, dty):
            return [(st, z3.BitVecVal(len(m.load(st, args[0].base, args[0].proj).items), 64))]

        def concrete_index(idx):
            idx = z3.simplify(idx)
            if not z3.is_bv_value(idx):
                raise Unknown("symbolic index into the heap list")
            return idx.as_long()

        def vec_index(m, st, fn, callee, args, dty):
            q = m.load(st, args[0].base, args[0].proj)
            i = concrete_index(args[1])
            if i >= len(q.items):
                m.oblige("index past the end of the heap list (host panic)", st, z3.BoolVal(True))
                return []
            return [(st, Ref(args[0].base, args[0].proj + (("q", i),)))]

        def vec_swap_remove(m, st, fn, callee, args, dty):
            q = m.load(st, args[0].base, args[0].proj)
            i = concrete_index(args[1])
            if i >= len(q.items):
                m.oblige("swap_remove past the end of the heap list (host panic)", st, z3.BoolVal(True))
                return []
            v = q.items[i]
            last = q.items.pop()
            if i < len(q.items):
                q.items[i] = last
            return [(st, v)]

        return [
            (r"^Vec::<\*mut ObjectHeader>::len$", vec_len),
            (r"^<Vec<\*mut ObjectHeader> as Index<usize>>::index$", vec_index),
            (r"^Vec::<\*mut ObjectHeader>::swap_remove$", vec_swap_remove),
            (r"as IntoIterator>::into_iter$", into_iter),
            (r"as Iterator>::next$", iter_next),
            (r"^\w+Object::nbytes$", nbytes),
            (r"^Box::<\w+>::from_raw$", from_raw),
            (r"^StructObject::layout$", layout),
            (r"^std::alloc::dealloc$", dealloc),
        ]

    def new_object(self, st, i, kind=None):
        if kind is None:
            k = z3.BitVec("kind_%d" % i, 64)
            st.pc.append(z3.ULT(k, len(self.kinds)))
        else:
            k = z3.BitVecVal(kind, 64)
        nb = z3.BitVec("nbytes_%d" % i, 64)
        st.pc.append(z3.ULT(nb, 1 << 40))
        o = Struct("Object", {"hdr": Struct("ObjectHeader", {0: Enum("ObjectKind", k, {}), 1: z3.BoolVal(False), 2: z3.BoolVal(False)}), "nbytes": nb})
        return st.alloc(o), nb

    def thread_drop(self, k):
        st = mirvm.State()
        st.ghost = {"dropped": []}
        objs, total = [], z3.BitVecVal(0, 64)
        for i in range(k):
            o, nb = self.new_object(st, i)
            objs.append(o)
            total = total + nb
        t = Struct("VmGreenThread", {self.tf["heap_list"]: QueueV([Ref(("H", o), ("hdr",)) for o in objs]), self.tf["heap_size"]: total})
        tobj = st.alloc(t)
        res = self.m.call(st, self.fn_thread, [Ref(("H", tobj))])
        return [(s, objs, s.heap[tobj].f[self.tf["heap_size"]]) for s, _ in res]

    def sweep_run(self, k):
        """one call of sweep(batch) with a symbolic batch from Sweeping { index: 0 } over k objects of symbolic kind, size and mark bit"""
        if not (self.fn_sweep and self.fn_hdr_nbytes):
            raise Unknown("no MIR for VmGreenThread::sweep / ObjectHeader::nbytes")
        for need in ("gc_state", "gc_visited", "last_gc_heap_size"):
            if need not in self.tf:
                raise Unknown("VmGreenThread has no field %s" % need)
        st = mirvm.State()
        st.ghost = {"dropped": []}
        objs, total, marks, sizes = [], z3.BitVecVal(0, 64), [], []
        for i in range(k):
            o, nb = self.new_object(st, i)
            vis = z3.Bool("visited_%d" % i)
            st.heap[o].f["hdr"].f[1] = vis
            st.pc.append(z3.UGT(nb, 0))
            objs.append(o)
            marks.append(vis)
            sizes.append(nb)
            total = total + nb
        gcv = z3.Bool("gc_visited")
        batch = z3.BitVec("batch", 64)
        st.pc.append(z3.ULT(batch, 1 << 41))
        t = Struct("VmGreenThread", {
            self.tf["heap_list"]: QueueV([Ref(("H", o), ("hdr",)) for o in objs]),
            self.tf["heap_size"]: total,
            self.tf["gc_state"]: Enum("GcState", self.gc_states["Sweeping"], {self.gc_states["Sweeping"]: [z3.BitVecVal(0, 64)]}),
            self.tf["gc_visited"]: gcv,
            self.tf["last_gc_heap_size"]: z3.BitVec("last_gc_heap_size", 64),
        })
        tobj = st.alloc(t)
        res = self.m.call(st, self.fn_sweep, [Ref(("H", tobj)), batch])
        return [(s, s.heap[tobj], objs, marks, sizes, gcv, total) for s, _ in res]

    def shared_drop(self, k):
        if not self.fn_shared:
            return None
        st = mirvm.State()
        st.ghost = {"dropped": []}
        objs = [self.new_object(st, i, self.kinds["String"])[0] for i in range(k)]
        sh = Struct("VmSharedReadonly", {self.sf["static_strings"]: QueueV([Ref(("H", o), ("hdr",)) for o in objs])})
        sobj = st.alloc(sh)
        res = self.m.call(st, self.fn_shared, [Ref(("H", sobj))])
        return [(s, objs) for s, _ in res]
