"""C30 (numeric literals in the parser) on engine M2: the literal arms of Parser::parse_expr_term (IntLit, FloatLit, Minus followed
by IntLit / FloatLit), executed on the MIR re-dumped from /repo's current source over a token whose text is a string of n symbolic
digits.  std's str::parse::<i64 / u64 / f64> is replaced by its contract (exact value of the digit string, Err iff out of range);
the obligation compares what the parser builds (ExprKind::Int(n) / ExprKind::Float(text) / a diagnostic) with the value spelled."""
import os
import re
import sys

sys.path.insert(0, os.path.join(os.path.dirname(os.path.abspath(__file__)), "..", "lib"))
import z3  # noqa: E402
from vcommon import REPO  # noqa: E402
import mirvm  # noqa: E402
from mirvm import Enum, QueueV, Ref, Struct, Token, Unknown  # noqa: E402
from sched import struct_fields  # noqa: E402
from lexnum import CH, ch, enum_variants  # noqa: E402


W = 80  # value width: 21 digits < 10^21 < 2^70, signed


def digits_value(items):
    """value of a list of digit characters (32-bit vectors) as a signed 80-bit vector (no overflow up to 21 digits)"""
    if len(items) > 21:
        raise Unknown("more than 21 digits")
    v = z3.BitVecVal(0, W)
    for c in items:
        v = v * 10 + z3.ZeroExt(W - CH, c - ch("0"))
    return v


def in_range(v, lo, hi):
    return z3.And(v >= z3.BitVecVal(lo, W), v <= z3.BitVecVal(hi, W))  # signed comparisons


class ParseLit:
    def __init__(self, mir_text):
        psrc = open(os.path.join(REPO, "abra_core", "src", "parse.rs")).read()
        lsrc = open(os.path.join(REPO, "abra_core", "src", "parse", "lexer.rs")).read()
        asrc = open(os.path.join(REPO, "abra_core", "src", "ast.rs")).read()
        self.pf = {n: i for i, n in enumerate(struct_fields(psrc, "Parser"))}
        for need in ("index", "errors", "tokens"):
            if need not in self.pf:
                raise Unknown("Parser has no field %s" % need)
        self.tk = enum_variants(lsrc, "TokenKind")
        self.ek = enum_variants(asrc, "ExprKind")
        ssrc = open(os.path.join(REPO, "abra_core", "src", "statics.rs")).read()
        self.errv = enum_variants(ssrc, "Error")
        for need in ("Int", "Float"):
            if need not in self.ek:
                raise Unknown("ExprKind has no variant %s" % need)
        allf = mirvm.parse_functions(mir_text)
        self.index = {}
        for name in allf:
            m = re.match(r"parse::<impl at [^>]*>::(\w+)$", name)
            if m and m.group(1) in ("parse_expr_term", "consume_token"):
                self.index[m.group(1)] = name
        for f in ("parse_expr_term", "consume_token"):
            if f not in self.index:
                raise Unknown("no MIR for Parser::%s" % f)
        enums = {"Option": {"None": 0, "Some": 1}, "TokenKind": self.tk, "ExprKind": self.ek, "Result": {"Ok": 0, "Err": 1},
                 "ControlFlow": {"Continue": 0, "Break": 1}, "Error": self.errv}
        self.m = mirvm.Machine(allf, self.resolver, self.summaries(), enums)
        self.parse_calls = []

    def resolver(self, callee, fn):
        if callee == "Parser::consume_token":
            return self.index["consume_token"]
        return None

    def eof(self):
        return Struct("Token", {0: Enum("TokenKind", self.tk["Eof"], {}), 1: Struct("Span", {0: z3.BitVecVal(99, 64), 1: z3.BitVecVal(100, 64)})})

    def summaries(self):
        pf = self.pf

        def parser(m, st, ref):
            return m.load(st, ref.base, ref.proj)

        def skip_newlines(m, st, fn, callee, args, dty):
            return [(st, Token("unit"))]  # assumption: the literal is not preceded by newline tokens

        def current_token(m, st, fn, callee, args, dty):
            p = parser(m, st, args[0])
            i = z3.simplify(p.f[pf["index"]])
            if not z3.is_bv_value(i):
                raise Unknown("parser index not concrete")
            toks = p.f[pf["tokens"]].items
            t = toks[i.as_long()] if i.as_long() < len(toks) else self.eof()
            return [(st, mirvm.clone(t))]

        def take(m, st, fn, callee, args, dty):
            old = m.load(st, args[0].base, args[0].proj)
            m.store(st, args[0].base, args[0].proj, QueueV([]))
            return [(st, old)]

        def not_a_lambda(m, st, fn, callee, args, dty):
            return [(st, Enum("Result", 0, {0: [Enum("Option", 0, {})]}))]

        def branch(m, st, fn, callee, args, dty):
            r = args[0]
            if r.disc == 0:
                return [(st, Enum("ControlFlow", 0, {0: [r.fields[0][0]]}))]
            return [(st, Enum("ControlFlow", 1, {1: [r]}))]

        def ident(m, st, fn, callee, args, dty):
            return [(st, args[0])]

        def opaque(name):
            def h(m, st, fn, callee, args, dty):
                return [(st, Token(name))]
            return h

        def to_string(m, st, fn, callee, args, dty):
            return [(st, QueueV(list(args[0].items)) if isinstance(args[0], QueueV) else Token("string"))]

        def add(m, st, fn, callee, args, dty):
            a, b = [m.load(st, x.base, x.proj) if isinstance(x, Ref) else x for x in args[:2]]
            return [(st, QueueV(list(a.items) + list(b.items)))]

        def parse_num(ty):
            def h(m, st, fn, callee, args, dty):
                s = args[0]
                if isinstance(s, Ref):
                    s = m.load(st, s.base, s.proj)
                if not isinstance(s, QueueV) or not s.items:
                    raise Unknown("parse::<%s> on a value that is not a modelled string" % ty)
                items = list(s.items)
                neg = False
                first = z3.simplify(items[0])
                if z3.is_bv_value(first) and first.as_long() == ord("-"):
                    neg = True
                    items = items[1:]
                for c in items:
                    if m.sat(st.pc, z3.Not(z3.And(z3.UGE(c, ch("0")), z3.ULE(c, ch("9"))))):
                        raise Unknown("parse::<%s> on a string that may contain a non-digit" % ty)
                self.parse_calls.append((ty, neg, len(items)))
                if ty == "f64":  # contract: a digit string with a '.' always parses (value = nearest binary64, trusted)
                    return [(st, Enum("Result", 0, {0: [Token("f64")]}))]
                v = digits_value(items)
                if neg:
                    v = -v
                lo, hi = (0, 2 ** 64 - 1) if ty == "u64" else (-2 ** 63, 2 ** 63 - 1)
                if neg and ty == "u64":
                    inr = v == 0
                else:
                    inr = in_range(v, lo, hi)
                outl = []
                if m.sat(st.pc, inr):
                    s2 = st.fork()
                    s2.pc.append(inr)
                    outl.append((s2, Enum("Result", 0, {0: [z3.Extract(63, 0, v)]})))
                if m.sat(st.pc, z3.Not(inr)):
                    st.pc.append(z3.Not(inr))
                    outl.append((st, Enum("Result", 1, {1: [Token("ParseIntError")]})))
                return outl
            return h

        def parse_f64(m, st, fn, callee, args, dty):
            s = args[0]
            if isinstance(s, Ref):
                s = m.load(st, s.base, s.proj)
            self.parse_calls.append(("f64", None, len(s.items)))
            return [(st, Enum("Result", 0, {0: [Token("f64")]}))]

        def wrapping_neg(m, st, fn, callee, args, dty):
            return [(st, -args[0])]

        return [
            (r"^Parser::skip_newlines$", skip_newlines),
            (r"^Parser::current_token$", current_token),
            (r"^std::mem::take::<Vec<statics::Error>>$", take),
            (r"^Parser::try_parse_lambda_expr$", not_a_lambda),
            (r"^<Result<.*> as Try>::branch$", branch),
            (r"^<String as Deref>::deref$", ident),
            (r"^core::str::<impl str>::parse::<i64>$", parse_num("i64")),
            (r"^core::str::<impl str>::parse::<u64>$", parse_num("u64")),
            (r"^core::str::<impl str>::parse::<f64>$", parse_f64),
            (r"^core::num::<impl i64>::wrapping_neg$", wrapping_neg),
            (r"^Rc::<ast::ExprKind>::new$", ident),
            (r"^Rc::<ast::Expr>::new$", ident),
            (r"^Parser::location$", opaque("location")),
            (r"^Parser::current_token_location$", opaque("location")),
            (r"^ast::NodeId::new$", opaque("node_id")),
            (r"^<&str as Into<String>>::into$", opaque("message")),
            (r"^<statics::Error as Into<Box<statics::Error>>>::into$", ident),
            (r"^<str as ToString>::to_string$", to_string),
            (r"^<String as Add<&str>>::add$", add),
        ]

    def run(self, form, n):
        """form: 'int' | 'neg_int' | 'float' | 'neg_float'; n digits (float: n digits, '.', one digit).
        returns (digit variables, [(state, result enum, parser index)])"""
        self.parse_calls = []
        st = mirvm.State()
        ds = [z3.BitVec("d%d" % i, CH) for i in range(n)]
        for d in ds:
            st.pc.append(z3.And(z3.UGE(d, ch("0")), z3.ULE(d, ch("9"))))
        text = list(ds)
        kind = "IntLit"
        if form.endswith("float"):
            f = z3.BitVec("f0", CH)
            st.pc.append(z3.And(z3.UGE(f, ch("0")), z3.ULE(f, ch("9"))))
            text = text + [ch("."), f]
            kind = "FloatLit"

        def tok(k, payload, lo, hi):
            return Struct("Token", {0: Enum("TokenKind", self.tk[k], {self.tk[k]: payload}), 1: Struct("Span", {0: z3.BitVecVal(lo, 64), 1: z3.BitVecVal(hi, 64)})})
        toks = []
        if form.startswith("neg"):
            toks.append(tok("Minus", [], 0, 1))
        toks.append(tok(kind, [QueueV(text)], len(toks), len(toks) + len(text)))
        p = Struct("Parser", {self.pf["index"]: z3.BitVecVal(0, 64), self.pf["errors"]: QueueV([]), self.pf["tokens"]: QueueV(toks)})
        obj = st.alloc(p)
        out = []
        for s, ret in self.m.call(st, self.index["parse_expr_term"], [Ref(("H", obj))]):
            out.append((s, ret, s.heap[obj].f[self.pf["index"]]))
        return ds, text, len(toks), out
