"""C32 (table construction) on engine M2: the MIR of Translator::create_source_location_tables, re-dumped from /repo's current
source, executed symbolically over a line list of concrete shape (instructions and labels) with symbolic (line, file, function)
triples; composed with the VM's lookup rule (the specification that c32_pc_to_error_location checks the real binary search
against under Kani)."""
import os
import re
import sys

sys.path.insert(0, os.path.join(os.path.dirname(os.path.abspath(__file__)), "..", "lib"))
import z3  # noqa: E402
from vcommon import REPO  # noqa: E402
import mirvm  # noqa: E402
from mirvm import Enum, IterV, QueueV, Ref, Struct, Token, Tup, Unknown  # noqa: E402
from sched import struct_fields  # noqa: E402


def variant_fields(src, enum, variant):
    m = re.search(r"enum %s \{\n(.*?)\n\}" % enum, src, flags=re.S)
    if not m:
        raise Unknown("enum %s not found" % enum)
    body = m.group(1)
    names = [x.group(1) for x in re.finditer(r"^    (\w+)", body, flags=re.M)]
    vm = re.search(r"^    %s \{\n(.*?)^    \}" % variant, body, flags=re.S | re.M)
    if not vm:
        raise Unknown("variant %s::%s not found" % (enum, variant))
    fields = [x.group(1) for x in re.finditer(r"^\s+(\w+):", vm.group(1), flags=re.M)]
    return {n: i for i, n in enumerate(names)}, fields


class SrcLoc:
    def __init__(self, mir_text):
        tb = open(os.path.join(REPO, "abra_core", "src", "translate_bytecode.rs")).read()
        asm = open(os.path.join(REPO, "abra_core", "src", "assembly.rs")).read()
        self.sf = {n: i for i, n in enumerate(struct_fields(tb, "TranslatorState"))}
        for need in ("lines", "filename_table", "lineno_table", "function_name_table"):
            if need not in self.sf:
                raise Unknown("TranslatorState has no field %s" % need)
        variants, ifields = variant_fields(asm, "Line", "Instr")
        self.line_variants = variants
        self.ifields = {n: i for i, n in enumerate(ifields)}
        for need in ("lineno", "file_id", "func_id"):
            if need not in self.ifields:
                raise Unknown("Line::Instr has no field %s" % need)
        allf = mirvm.parse_functions(mir_text)
        self.fname = None
        for name in allf:
            if name.endswith("::create_source_location_tables"):
                self.fname = name
        if self.fname is None:
            raise Unknown("no MIR for create_source_location_tables")
        enums = {"Option": {"None": 0, "Some": 1}, "Line": variants}
        self.m = mirvm.Machine(allf, lambda callee, fn: None, self.summaries(), enums)

    def summaries(self):
        def into_iter(m, st, fn, callee, args, dty):
            return [(st, IterV(args[0], 0))]

        def iter_next(m, st, fn, callee, args, dty):
            it = m.load(st, args[0].base, args[0].proj)
            q = m.load(st, it.queue_ref.base, it.queue_ref.proj)
            if it.pos < len(q.items):
                r = Ref(it.queue_ref.base, it.queue_ref.proj + (("q", it.pos),))
                it.pos += 1
                return [(st, Enum("Option", 1, {1: [r]}))]
            return [(st, Enum("Option", 0, {}))]

        def deref(m, st, fn, callee, args, dty):
            return [(st, args[0])]

        def last(m, st, fn, callee, args, dty):
            q = m.load(st, args[0].base, args[0].proj)
            if not q.items:
                return [(st, Enum("Option", 0, {}))]
            return [(st, Enum("Option", 1, {1: [Ref(args[0].base, args[0].proj + (("q", len(q.items) - 1),))]}))]

        def first(m, st, fn, callee, args, dty):
            q = m.load(st, args[0].base, args[0].proj)
            if not q.items:
                return [(st, Enum("Option", 0, {}))]
            return [(st, Enum("Option", 1, {1: [Ref(args[0].base, args[0].proj + (("q", 0),))]}))]

        def length(m, st, fn, callee, args, dty):
            return [(st, z3.BitVecVal(len(m.load(st, args[0].base, args[0].proj).items), 64))]

        def is_empty(m, st, fn, callee, args, dty):
            return [(st, z3.BoolVal(not m.load(st, args[0].base, args[0].proj).items))]

        def push(m, st, fn, callee, args, dty):
            q = m.load(st, args[0].base, args[0].proj)
            q.items.append(args[1])
            return [(st, Token("unit"))]

        return [
            (r"^<&Vec<Line> as IntoIterator>::into_iter$", into_iter),
            (r"^<std::slice::Iter<'_, Line> as Iterator>::next$", iter_next),
            (r"^<Vec<\(u32, u32\)> as Deref>::deref$", deref),
            (r"^core::slice::<impl \[\(u32, u32\)\]>::last$", last),
            (r"^Vec::<\(u32, u32\)>::push$", push),
            (r"^core::slice::<impl \[\(u32, u32\)\]>::first$", first),
            (r"^(core::slice::<impl \[\(u32, u32\)\]>|Vec::<\(u32, u32\)>)::len$", length),
            (r"^(core::slice::<impl \[\(u32, u32\)\]>|Vec::<\(u32, u32\)>)::is_empty$", is_empty),
        ]

    def run(self, shape, symbolic):
        """shape: string over {'I','L'} (instruction / label); symbolic: set of components {'line','file','func'} that are symbolic.
        returns list of (state, instr triples, tables)"""
        st = mirvm.State()
        lines = []
        trip = []
        k = 0
        for c in shape:
            if c == "L":
                lines.append(Enum("Line", self.line_variants["Label"], {self.line_variants["Label"]: [Token("label")]}))
                continue
            ln = z3.BitVec("line_%d" % k, 64) if "line" in symbolic else z3.BitVecVal(7, 64)
            fi = z3.BitVec("file_%d" % k, 32) if "file" in symbolic else z3.BitVecVal(1, 32)
            fu = z3.BitVec("func_%d" % k, 32) if "func" in symbolic else z3.BitVecVal(2, 32)
            if "line" in symbolic:
                st.pc.append(z3.ULT(ln, 1 << 31))  # line numbers fit in u32 (the table stores them as u32)
            f = [None] * 4
            f[self.ifields["lineno"]], f[self.ifields["file_id"]], f[self.ifields["func_id"]] = ln, fi, fu
            f = [x if x is not None else Token("instr") for x in f]
            lines.append(Enum("Line", self.line_variants["Instr"], {self.line_variants["Instr"]: f}))
            trip.append((z3.Extract(31, 0, ln), fi, fu))
            k += 1
        stt = Struct("TranslatorState", {self.sf["lines"]: QueueV(lines), self.sf["filename_table"]: QueueV([]),
                                         self.sf["lineno_table"]: QueueV([]), self.sf["function_name_table"]: QueueV([])})
        obj = st.alloc(stt)
        out = []
        for s, _ in self.m.call(st, self.fname, [Token("self"), Ref(("H", obj))]):
            t = s.heap[obj]
            out.append((s, trip, {"line": t.f[self.sf["lineno_table"]].items, "file": t.f[self.sf["filename_table"]].items,
                                  "func": t.f[self.sf["function_name_table"]].items}))
        return out


def covering(table, i):
    """the VM's rule: the entry with the greatest start index <= i (first entry if none)"""
    if not table:
        return None
    best = table[0].items[1]
    for e in table:
        best = z3.If(z3.ULE(e.items[0], z3.BitVecVal(i, 32)), e.items[1], best)
    return best
