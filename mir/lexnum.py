"""C30 (number lexing) on engine M2: the MIR of Lexer::handle_num (with current_char, peek_char, emit_with_skipped and
TokenKind::nchars executed from their own MIR), re-dumped from /repo's current source, run over a character vector whose tail of
k characters is symbolic (every Unicode scalar value).  The token text, the token kind, the span and the new lexer index are
compared with a specification written as a fold over the same symbolic characters (maximal run of digits / underscores, an
optional '.', a second run; the text is the run with the underscores removed)."""
import os
import re
import sys

sys.path.insert(0, os.path.join(os.path.dirname(os.path.abspath(__file__)), "..", "lib"))
import z3  # noqa: E402
from vcommon import REPO  # noqa: E402
import mirvm  # noqa: E402
from mirvm import Enum, IterV, QueueV, Ref, Struct, Token, Unknown  # noqa: E402
from sched import struct_fields  # noqa: E402

CH = 32  # char as a 32-bit vector


def ch(c):
    return z3.BitVecVal(ord(c), CH)


def enum_variants(src, enum):
    m = re.search(r"enum %s \{\n(.*?)\n\}" % enum, src, flags=re.S)
    if not m:
        raise Unknown("enum %s not found" % enum)
    body = re.sub(r"//[^\n]*", "", m.group(1))
    body = re.sub(r"/\*.*?\*/", "", body, flags=re.S)
    body = re.sub(r"#\[[^\]]*\]", "", body)
    names = []
    for part in mirvm.split_top(body):
        pm = re.match(r"\s*(\w+)", part)
        if pm:
            names.append(pm.group(1))
    return {n: i for i, n in enumerate(names)}


class LexNum:
    FUNCS = ("handle_num", "current_char", "peek_char", "emit_with_skipped", "nchars")

    def __init__(self, mir_text):
        src = open(os.path.join(REPO, "abra_core", "src", "parse", "lexer.rs")).read()
        self.lf = {n: i for i, n in enumerate(struct_fields(src, "Lexer"))}
        for need in ("chars", "index", "tokens"):
            if need not in self.lf:
                raise Unknown("Lexer has no field %s" % need)
        self.variants = enum_variants(src, "TokenKind")
        for need in ("IntLit", "FloatLit"):
            if need not in self.variants:
                raise Unknown("TokenKind has no variant %s" % need)
        allf = mirvm.parse_functions(mir_text)
        self.index = {}
        for name in allf:
            m = re.match(r"lexer::<impl at [^>]*>::(\w+)$", name)
            if m and m.group(1) in self.FUNCS:
                self.index[m.group(1)] = name
        for f in self.FUNCS:
            if f not in self.index:
                raise Unknown("no MIR for lexer %s" % f)
        enums = {"Option": {"None": 0, "Some": 1}, "TokenKind": self.variants}
        self.m = mirvm.Machine(allf, self.resolver, self.summaries(), enums)

    def resolver(self, callee, fn):
        m = re.fullmatch(r"(?:Lexer|TokenKind)::(\w+)", callee)
        if m and m.group(1) in self.index:
            return self.index[m.group(1)]
        return None

    def summaries(self):
        def conc(v, what):
            v = z3.simplify(v)
            if not z3.is_bv_value(v):
                raise Unknown("%s is not concrete" % what)
            return v.as_long()

        def string_new(m, st, fn, callee, args, dty):
            return [(st, QueueV([]))]

        def string_push(m, st, fn, callee, args, dty):
            q = m.load(st, args[0].base, args[0].proj)
            q.items.append(args[1])
            return [(st, Token("unit"))]

        def vec_push(m, st, fn, callee, args, dty):
            q = m.load(st, args[0].base, args[0].proj)
            q.items.append(args[1])
            return [(st, Token("unit"))]

        def deref(m, st, fn, callee, args, dty):
            return [(st, args[0])]

        def index(m, st, fn, callee, args, dty):
            q = m.load(st, args[0].base, args[0].proj)
            i = conc(args[1], "vector index")
            m.oblige("index out of bounds in %s" % fn.name, st, z3.BoolVal(i >= len(q.items)))
            if i >= len(q.items):
                return []
            return [(st, Ref(args[0].base, args[0].proj + (("q", i),)))]

        def get(m, st, fn, callee, args, dty):
            q = m.load(st, args[0].base, args[0].proj)
            i = conc(args[1], "slice index")
            if i < len(q.items):
                return [(st, Enum("Option", 1, {1: [Ref(args[0].base, args[0].proj + (("q", i),))]}))]
            return [(st, Enum("Option", 0, {}))]

        def cloned(m, st, fn, callee, args, dty):
            o = args[0]
            if o.disc == 0:
                return [(st, Enum("Option", 0, {}))]
            r = o.fields[1][0]
            return [(st, Enum("Option", 1, {1: [m.load(st, r.base, r.proj)]}))]

        def is_ascii_digit(m, st, fn, callee, args, dty):
            c = m.load(st, args[0].base, args[0].proj)
            return [(st, z3.And(z3.UGE(c, ch("0")), z3.ULE(c, ch("9"))))]

        def chars(m, st, fn, callee, args, dty):
            return [(st, IterV(args[0], 0))]

        def count(m, st, fn, callee, args, dty):
            it = args[0]
            q = m.load(st, it.queue_ref.base, it.queue_ref.proj)
            return [(st, z3.BitVecVal(len(q.items) - it.pos, 64))]

        return [
            (r"^String::new$", string_new),
            (r"^String::push$", string_push),
            (r"^Vec::<Token>::push$", vec_push),
            (r"^<Vec<char> as Deref>::deref$", deref),
            (r"^<String as Deref>::deref$", deref),
            (r"^<Vec<char> as Index<usize>>::index$", index),
            (r"^core::slice::<impl \[char\]>::get::<usize>$", get),
            (r"^Option::<&char>::cloned$", cloned),
            (r"^char::methods::<impl char>::is_ascii_digit$", is_ascii_digit),
            (r"^core::str::<impl str>::chars$", chars),
            (r"^<std::str::Chars<'_> as Iterator>::count$", count),
        ]

    def run(self, prefix, k, first_is_digit=True):
        """prefix: concrete characters before the literal (the lexer's index points behind them); k symbolic characters follow.
        returns (chars, [(state, token kind name, text, lo, hi, new index, number of tokens)])"""
        st = mirvm.State()
        cs = [z3.BitVec("c%d" % i, CH) for i in range(k)]
        for c in cs:  # Unicode scalar values
            st.pc.append(z3.And(z3.ULE(c, z3.BitVecVal(0x10FFFF, CH)), z3.Or(z3.ULT(c, z3.BitVecVal(0xD800, CH)), z3.UGT(c, z3.BitVecVal(0xDFFF, CH)))))
        if first_is_digit:  # the call site: start_of_number(current_char())
            st.pc.append(z3.And(z3.UGE(cs[0], ch("0")), z3.ULE(cs[0], ch("9"))))
        lex = Struct("Lexer", {self.lf["chars"]: QueueV([ch(c) for c in prefix] + cs),
                               self.lf["index"]: z3.BitVecVal(len(prefix), 64),
                               self.lf["tokens"]: QueueV([])})
        obj = st.alloc(lex)
        out = []
        inv = {v: n for n, v in self.variants.items()}
        for s, _ in self.m.call(st, self.index["handle_num"], [Ref(("H", obj))]):
            lx = s.heap[obj]
            toks = lx.f[self.lf["tokens"]].items
            if len(toks) != 1:
                out.append((s, None, None, None, None, lx.f[self.lf["index"]], len(toks)))
                continue
            t = toks[0]
            kind, span = t.f[0], t.f[1]
            if z3.is_expr(kind.disc):
                raise Unknown("symbolic token kind")
            text = kind.fields[kind.disc][0].items if kind.fields.get(kind.disc) else []
            out.append((s, inv.get(kind.disc), text, span.f[0], span.f[1], lx.f[self.lf["index"]], 1))
        return cs, out


def spec(cs):
    """reference: fold over the characters.  returns (is_float, n_out, out[0..k], consumed) as z3 terms"""
    k = len(cs)
    phase = z3.BitVecVal(0, 8)  # 0 = integer run, 1 = fraction run, 2 = done
    n_out = z3.BitVecVal(0, 8)
    consumed = z3.BitVecVal(0, 8)
    is_float = z3.BoolVal(False)
    out = [z3.BitVecVal(0, CH) for _ in range(k + 1)]
    one = z3.BitVecVal(1, 8)
    for c in cs:
        digit = z3.And(z3.UGE(c, ch("0")), z3.ULE(c, ch("9")))
        under = c == ch("_")
        dot = c == ch(".")
        active = phase != 2
        emit = z3.And(active, z3.Or(digit, z3.And(dot, phase == 0)))
        take = z3.And(active, z3.Or(digit, under, z3.And(dot, phase == 0)))
        out = [z3.If(z3.And(emit, n_out == j), c, out[j]) for j in range(k + 1)]
        n_out = z3.If(emit, n_out + one, n_out)
        consumed = z3.If(take, consumed + one, consumed)
        is_float = z3.Or(is_float, z3.And(active, dot, phase == 0))
        phase = z3.If(active, z3.If(z3.Or(digit, under), phase, z3.If(z3.And(dot, phase == 0), z3.BitVecVal(1, 8), z3.BitVecVal(2, 8))), phase)
    return is_float, n_out, out, consumed
