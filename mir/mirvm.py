"""Engine M2: a small symbolic interpreter for rustc MIR (text form of -Zunpretty=mir), used for the scheduler layer
(vm::Runtime) that Kani cannot reach (dropping a Box<VmGreenThread> drags std's mpmc channel drop glue into every loop
iteration; measured: > 900 s for a three-step concrete schedule).

Scalars are z3 terms; aggregates, references, boxes and enums are Python objects; control flow forks at switchInt when both
sides are satisfiable under the path condition (z3).  Library calls are replaced by the summaries in `SUMMARIES`; every
summary used is reported in the evidence.  Anything the interpreter does not understand raises Unknown -> the check is
INCONCLUSIVE (never a silent pass)."""
import re

import z3


class Unknown(Exception):
    pass


# ------------------------------------------------------------------ values
class Ref:
    """reference / raw pointer to a place"""
    __slots__ = ("base", "proj")

    def __init__(self, base, proj=()):
        self.base, self.proj = base, tuple(proj)

    def __repr__(self):
        return "Ref(%s%s)" % (self.base, "".join("." + str(p) for p in self.proj))


class BoxV:
    """Box<T> owning heap object `obj`"""
    __slots__ = ("obj",)

    def __init__(self, obj):
        self.obj = obj

    def __repr__(self):
        return "Box(#%s)" % self.obj


class Enum:
    """enum value: disc is a python int or a z3 bit-vector; fields: variant index -> list of values"""
    __slots__ = ("ty", "disc", "fields")

    def __init__(self, ty, disc, fields=None):
        self.ty, self.disc, self.fields = ty, disc, fields or {}

    def __repr__(self):
        return "Enum(%s,%s,%s)" % (self.ty, self.disc, self.fields)


class Tup:
    __slots__ = ("items",)

    def __init__(self, items):
        self.items = list(items)

    def __repr__(self):
        return "Tup%s" % (self.items,)


class Struct:
    __slots__ = ("ty", "f")

    def __init__(self, ty, f):
        self.ty, self.f = ty, dict(f)

    def __repr__(self):
        return "Struct(%s,%s)" % (self.ty, self.f)


class Token:
    """opaque value with identity"""
    __slots__ = ("name",)

    def __init__(self, name):
        self.name = name

    def __repr__(self):
        return "Token(%s)" % self.name


class QueueV:
    """VecDeque / channel model: python list of values"""
    __slots__ = ("items",)

    def __init__(self, items=None):
        self.items = list(items or [])

    def __repr__(self):
        return "Queue%s" % (self.items,)


class IterV:
    __slots__ = ("queue_ref", "pos")

    def __init__(self, queue_ref, pos=0):
        self.queue_ref, self.pos = queue_ref, pos


def clone(v):
    if isinstance(v, (Ref, BoxV, Token)) or v is None or isinstance(v, (int, bool, str)):
        return v
    if isinstance(v, Enum):
        return Enum(v.ty, v.disc, {k: [clone(x) for x in vs] for k, vs in v.fields.items()})
    if isinstance(v, Tup):
        return Tup([clone(x) for x in v.items])
    if isinstance(v, Struct):
        return Struct(v.ty, {k: clone(x) for k, x in v.f.items()})
    if isinstance(v, QueueV):
        return QueueV([clone(x) for x in v.items])
    if isinstance(v, IterV):
        return IterV(v.queue_ref, v.pos)
    if isinstance(v, list):
        return [clone(x) for x in v]
    if isinstance(v, dict):
        return {k: clone(x) for k, x in v.items()}
    return v  # z3 terms are immutable


class State:
    def __init__(self):
        self.heap = {}  # obj id -> value
        self.frames = []  # list of dict local -> value
        self.pc = []  # path condition (z3 bools)
        self.ghost = {}  # free-form ghost data (logs, counters)
        self.next_obj = 1

    def fork(self):
        s = State()
        s.heap = {k: clone(v) for k, v in self.heap.items()}
        s.frames = [{k: clone(v) for k, v in f.items()} for f in self.frames]
        s.pc = list(self.pc)
        s.ghost = clone(self.ghost)
        s.next_obj = self.next_obj
        return s

    def alloc(self, v):
        i = self.next_obj
        self.next_obj += 1
        self.heap[i] = v
        return i


# ------------------------------------------------------------------ MIR text
class Fn:
    def __init__(self, name, header, params, types, blocks):
        self.name, self.header, self.params, self.types, self.blocks = name, header, params, types, blocks


def split_top(s, sep=","):
    out, depth, cur = [], 0, ""
    i = 0
    while i < len(s):
        c = s[i]
        if c in "([{":
            depth += 1
        elif c in ")]}":
            depth -= 1
        elif c == "<" and not s[i - 1:i] == "-":
            depth += 1
        elif c == ">" and not s[i - 1:i] in ("-", "="):
            depth -= 1
        if c == sep and depth == 0:
            out.append(cur.strip())
            cur = ""
        else:
            cur += c
        i += 1
    if cur.strip():
        out.append(cur.strip())
    return out


def parse_functions(mir):
    fns = {}
    for m in re.finditer(r"^fn ([^\n]*?)\((.*?)\) -> ([^\n]*?) \{\n(.*?)^\}\n", mir, flags=re.S | re.M):
        name, params, _ret, body = m.group(1), m.group(2), m.group(3), m.group(4)
        if name in fns:
            continue
        types = {}
        plist = []
        for p in split_top(params):
            pm = re.match(r"(_\d+): (.*)", p)
            if pm:
                types[pm.group(1)] = pm.group(2)
                plist.append(pm.group(1))
        for lm in re.finditer(r"^\s*let (?:mut )?(_\d+): (.*);$", body, flags=re.M):
            types[lm.group(1)] = lm.group(2)
        blocks = {}
        for bm in re.finditer(r"^    (bb\d+)(?: \(cleanup\))?: \{\n(.*?)^    \}", body, flags=re.S | re.M):
            blocks[bm.group(1)] = [s.strip() for s in bm.group(2).split("\n") if s.strip()]
        fns[name] = Fn(name, m.group(0).split("\n", 1)[0], plist, types, blocks)
    return fns


def parse_named_consts(mir):
    """simple constant items: `const vm::NAME: u32 = { ... _0 = const 16_u32; ... }`"""
    out = {}
    for m in re.finditer(r"^const ([\w:]+): [^=\n]+ = const ([^;\n]+);", mir, flags=re.M):
        out[m.group(1)] = m.group(2).strip()
        out[m.group(1).split("::")[-1]] = m.group(2).strip()
    for m in re.finditer(r"^const ([\w:]+): [^=\n]+ = \{\n(.*?)^\}\n", mir, flags=re.S | re.M):
        vm = re.search(r"_0 = const ([^;\n]+);", m.group(2))
        if vm:
            out[m.group(1)] = vm.group(1).strip()
            out[m.group(1).split("::")[-1]] = vm.group(1).strip()
    return out


def int_width(ty):
    ty = ty.strip()
    return {"u8": 8, "u16": 16, "u32": 32, "u64": 64, "usize": 64, "i8": 8, "i16": 16, "i32": 32, "i64": 64, "isize": 64}.get(ty)


# ------------------------------------------------------------------ interpreter
class Machine:
    def __init__(self, fns, resolver, summaries, enums, max_steps=20000):
        self.fns = fns
        self.resolver = resolver  # callee text -> Fn name or None
        self.summaries = summaries  # list of (regex, handler(machine, state, fn, callee, args, dest_ty) -> list[(state, value)])
        self.enums = enums  # type short name -> {variant name: index}
        self.solver = z3.Solver()
        self.queries = 0
        self.solver_s = 0.0
        self.max_steps = max_steps
        self.used_summaries = set()
        self.fns_executed = set()
        self.stmts = 0
        self.obligations = []  # (name, state, violated_condition)
        self.named_consts = {}  # path -> literal text, from `const NAME: ty = { .. _0 = const LIT; .. }` items of the dump

    # ---- solver helpers
    def sat(self, pc, extra=None):
        import time
        self.solver.push()
        self.solver.add(*pc)
        if extra is not None:
            self.solver.add(extra)
        t0 = time.time()
        r = self.solver.check()
        self.solver_s += time.time() - t0
        self.queries += 1
        self.solver.pop()
        if r == z3.unknown:
            raise Unknown("solver returned unknown")
        return r == z3.sat

    def oblige(self, name, st, bad):
        """record an obligation: `bad` must be unsatisfiable under the path condition"""
        bad = z3.simplify(bad) if z3.is_expr(bad) else z3.BoolVal(bool(bad))
        if z3.is_false(bad):
            self.obligations.append((name, None, None))
            return
        if self.sat(st.pc, bad):
            self.obligations.append((name, st, bad))
        else:
            self.obligations.append((name, None, None))

    # ---- places
    def parse_place(self, s):
        s = s.strip()
        p, i = self._pp(s, 0)
        if s[i:].strip():
            raise Unknown("trailing text in place: %r" % s)
        return p

    def _pp(self, s, i):
        if s[i] == "_":
            m = re.match(r"_\d+", s[i:])
            return ("L", m.group(0), ()), i + len(m.group(0))
        if s[i] != "(":
            raise Unknown("place syntax: %r" % s[i:])
        if s[i + 1] == "*":
            inner, j = self._pp(s, i + 2)
            if s[j] != ")":
                raise Unknown("place syntax (deref): %r" % s)
            return ("D", inner), j + 1
        inner, j = self._pp(s, i + 1)
        rest = s[j:]
        m = re.match(r"\.(\d+): ", rest)
        if m:
            k = j + len(m.group(0))
            depth = 0
            while k < len(s):
                c = s[k]
                if c in "([":
                    depth += 1
                elif c in ")]":
                    if depth == 0:
                        break
                    depth -= 1
                k += 1
            return ("F", inner, int(m.group(1)), s[j + len(m.group(0)):k]), k + 1
        m = re.match(r" as (\w+)\)", rest)
        if m:
            return ("V", inner, m.group(1)), j + len(m.group(0))
        raise Unknown("place syntax: %r" % s)

    def resolve(self, st, p):
        """place AST -> (container getter/setter) as (base, proj)"""
        kind = p[0]
        if kind == "L":
            return ("L", len(st.frames) - 1, p[1]), ()
        if kind == "D":
            v = self.read(st, p[1])
            if isinstance(v, BoxV):
                return ("H", v.obj), ()
            if not isinstance(v, Ref):
                raise Unknown("deref of non-reference %r" % (v,))
            return v.base, v.proj
        if kind == "F":
            base, proj = self.resolve(st, p[1])
            return base, proj + (p[2],)
        if kind == "V":
            base, proj = self.resolve(st, p[1])
            return base, proj + (("as", p[2]),)
        raise Unknown("place kind")

    def _root(self, st, base):
        if base[0] == "L":
            fr = st.frames[base[1]]
            if base[2] not in fr:
                raise Unknown("read of unassigned local %s" % base[2])
            return fr[base[2]]
        return st.heap[base[1]]

    def _step(self, v, k):
        if isinstance(k, tuple) and k[0] == "as":
            if not isinstance(v, Enum):
                raise Unknown("downcast of non-enum %r" % (v,))
            idx = self.enums.get(v.ty, {}).get(k[1])
            if idx is None:
                raise Unknown("unknown variant %s of %s" % (k[1], v.ty))
            return ("variant", v, idx)
        if isinstance(v, tuple) and v and v[0] == "variant":
            return v[1].fields[v[2]][k]
        if isinstance(k, tuple) and k[0] == "q":
            if not isinstance(v, QueueV) or k[1] >= len(v.items):
                raise Unknown("dangling queue element reference")
            return v.items[k[1]]
        if isinstance(v, Tup):
            return v.items[k]
        if isinstance(v, Struct):
            if k not in v.f:
                raise Unknown("struct %s has no modelled field %s" % (v.ty, k))
            return v.f[k]
        if isinstance(v, BoxV):  # Box.0 (Unique) .0 (NonNull): stay on the box
            return v
        raise Unknown("projection %r on %r" % (k, v))

    def load(self, st, base, proj):
        v = self._root(st, base)
        for k in proj:
            v = self._step(v, k)
        if isinstance(v, tuple) and v and v[0] == "variant":
            raise Unknown("read of a bare variant view")
        return v

    def store(self, st, base, proj, val):
        if not proj:
            if base[0] == "L":
                st.frames[base[1]][base[2]] = val
            else:
                st.heap[base[1]] = val
            return
        v = self._root(st, base)
        for k in proj[:-1]:
            v = self._step(v, k)
        k = proj[-1]
        if isinstance(v, tuple) and v and v[0] == "variant":
            v[1].fields[v[2]][k] = val
        elif isinstance(v, Tup):
            v.items[k] = val
        elif isinstance(v, Struct):
            v.f[k] = val
        else:
            raise Unknown("store through %r" % (v,))

    def read(self, st, p):
        base, proj = self.resolve(st, p)
        return self.load(st, base, proj)

    # ---- operands / rvalues
    def const(self, text, ty_hint=None):
        text = text.strip()
        if text in ("true", "false"):
            return z3.BoolVal(text == "true")
        m = re.fullmatch(r"(-?\d+)_(u8|u16|u32|u64|usize|i8|i16|i32|i64|isize)", text)
        if m:
            return z3.BitVecVal(int(m.group(1)), int_width(m.group(2)))
        m = re.fullmatch(r"'(.*)'", text, flags=re.S)
        if m:  # char literal -> 32-bit scalar value
            body = m.group(1)
            esc = {"\\n": "\n", "\\t": "\t", "\\r": "\r", "\\\\": "\\", "\\'": "'", "\\0": "\0", '\\"': '"'}
            um = re.fullmatch(r"\\u\{([0-9a-fA-F]+)\}", body)
            if um:
                return z3.BitVecVal(int(um.group(1), 16), 32)
            body = esc.get(body, body)
            if len(body) != 1:
                raise Unknown("char constant %r" % text)
            return z3.BitVecVal(ord(body), 32)
        m = re.fullmatch(r'"(.*)"', text, flags=re.S)
        if m and "\\" not in m.group(1):  # string constant -> list of characters
            return QueueV([z3.BitVecVal(ord(c), 32) for c in m.group(1)])
        if text.startswith("ZeroSized"):
            return Token("zst")
        for key in (text, text.split("::")[-1]):
            if key in self.named_consts:
                return self.const(self.named_consts[key])
        raise Unknown("constant %r" % text)

    def operand(self, st, text):
        text = text.strip()
        m = re.match(r"(copy|move|no_retag copy)\s+(.*)", text)
        if m:
            v = self.read(st, self.parse_place(m.group(2)))
            return v
        if text.startswith("const "):
            return self.const(text[6:])
        raise Unknown("operand %r" % text)

    def rvalue(self, st, fn, dest_ty, text):
        text = text.strip()
        if re.match(r"(copy|move|no_retag copy|const)\s", text):
            m = re.match(r"(.*) as (.*) \((\w+)\)$", text)
            if m and re.match(r"(copy|move|const)\s", m.group(1)):
                v = self.operand(st, m.group(1))
                kind = m.group(3)
                if kind == "Transmute" and isinstance(v, BoxV):
                    return Ref(("H", v.obj))
                if kind in ("Transmute", "PtrToPtr") and isinstance(v, Ref):
                    return v
                if kind == "IntToInt" and z3.is_bv(v):
                    w = int_width(m.group(2))
                    if w is None:
                        raise Unknown("cast to " + m.group(2))
                    return z3.ZeroExt(w - v.size(), v) if w > v.size() else z3.Extract(w - 1, 0, v)
                raise Unknown("cast %r" % text)
            return self.operand(st, text)
        m = re.match(r"&(?:mut |raw const |raw mut )?(.*)", text)
        if m:
            base, proj = self.resolve(st, self.parse_place(m.group(1)))
            return Ref(base, proj)
        m = re.fullmatch(r"discriminant\((.*)\)", text)
        if m:
            v = self.read(st, self.parse_place(m.group(1)))
            if not isinstance(v, Enum):
                raise Unknown("discriminant of %r" % (v,))
            return v.disc if z3.is_expr(v.disc) else z3.BitVecVal(v.disc, 64)
        m = re.fullmatch(r"(\w+)\((.*)\)", text)
        if m and m.group(1) in ("Gt", "Lt", "Ge", "Le", "Eq", "Ne", "Add", "Sub", "AddWithOverflow", "SubWithOverflow", "Not", "BitAnd", "BitOr"):
            op = m.group(1)
            args = [self.operand(st, a) for a in split_top(m.group(2))]
            if op == "Not":
                return z3.Not(args[0]) if z3.is_bool(args[0]) else ~args[0]
            a, b = args
            if op in ("Gt", "Lt", "Ge", "Le"):
                signed = False  # only unsigned comparisons occur in the modelled functions; checked below
                f = {"Gt": z3.UGT, "Lt": z3.ULT, "Ge": z3.UGE, "Le": z3.ULE}[op]
                return f(a, b)
            if op == "Eq":
                return a == b
            if op == "Ne":
                return a != b
            if op == "Add":
                return a + b
            if op == "Sub":
                return a - b
            if op == "BitAnd":
                return z3.And(a, b) if z3.is_bool(a) else a & b
            if op == "BitOr":
                return z3.Or(a, b) if z3.is_bool(a) else a | b
            signed = bool(dest_ty) and dest_ty.strip().startswith("(i")
            if op == "AddWithOverflow" and signed:
                return Tup([a + b, z3.Not(z3.And(z3.BVAddNoOverflow(a, b, True), z3.BVAddNoUnderflow(a, b)))])
            if op == "AddWithOverflow":
                return Tup([a + b, z3.Not(z3.BVAddNoOverflow(a, b, False))])
            if op == "SubWithOverflow":
                return Tup([a - b, z3.Not(z3.BVSubNoUnderflow(a, b, False))])
        if text.startswith("("):  # tuple aggregate
            inner = text[1:-1]
            return Tup([self.operand(st, a) for a in split_top(inner)])
        # enum / struct aggregates
        m = re.fullmatch(r"([\w:]+?)(?:::<.*>)?::(\w+)(?:\((.*)\))?", text)
        if m:
            ty = m.group(1).split("::")[-1]
            if ty in self.enums and m.group(2) in self.enums[ty]:
                idx = self.enums[ty][m.group(2)]
                fields = [self.operand(st, a) for a in split_top(m.group(3))] if m.group(3) else []
                return Enum(ty, idx, {idx: fields})
        m = re.fullmatch(r"([\w:]+) \{ (.*) \}", text)
        if m:
            fs = {}
            for i, part in enumerate(split_top(m.group(2))):
                nm, val = part.split(": ", 1)
                fs[i] = self.operand(st, val)
                fs[nm] = fs[i]
            return Struct(m.group(1).split("::")[-1], fs)
        raise Unknown("rvalue %r in %s" % (text, fn.name))

    # ---- execution
    def call(self, st, fname, args):
        """run MIR function `fname`; returns list of (state, return value)"""
        fn = self.fns[fname]
        self.fns_executed.add(fname)
        frame = {}
        for p, a in zip(fn.params, args):
            frame[p] = a
        st.frames.append(frame)
        out = []
        work = [(st, "bb0")]
        while work:
            s, bb = work.pop()
            for nxt in self.run_block(s, fn, bb, out):
                work.append(nxt)
        return out

    def run_block(self, st, fn, bb, out):
        stmts = fn.blocks.get(bb)
        if stmts is None:
            raise Unknown("no block %s in %s" % (bb, fn.name))
        for stmt in stmts:
            self.stmts += 1
            if self.stmts > self.max_steps * 5000:
                raise Unknown("statement budget exhausted")
            s = stmt.rstrip(";")
            if s.startswith(("StorageLive", "StorageDead", "FakeRead", "PlaceMention", "nop", "Retag", "AscribeUserType", "Coverage", "ConstEvalCounter")) or s.startswith("//") or s.startswith("debug "):
                continue
            # terminators
            if s == "return":
                fr = st.frames.pop()
                out.append((st, fr.get("_0")))
                return []
            if s == "unreachable":
                self.oblige("unreachable code reached in %s" % fn.name, st, z3.BoolVal(True))
                return []
            if s == "resume" or s.startswith("resume"):
                return []
            m = re.fullmatch(r"goto -> (bb\d+)", s)
            if m:
                return [(st, m.group(1))]
            m = re.fullmatch(r"switchInt\((.*)\) -> \[(.*)\]", s)
            if m:
                return self.switch(st, fn, m.group(1), m.group(2))
            m = re.fullmatch(r"assert\((!?)(.*?), \".*?\"(?:, .*)?\) -> \[success: (bb\d+), unwind[^\]]*\]", s)
            if m:
                c = self.operand(st, m.group(2))
                ok = z3.Not(c) if m.group(1) == "!" else c
                self.oblige("rust assert in %s: %s" % (fn.name, stmt[:90]), st, z3.Not(ok))
                st.pc.append(ok)
                return [(st, m.group(3))]
            m = re.fullmatch(r"drop\((.*)\) -> \[return: (bb\d+), unwind[^\]]*\]", s)
            if m:
                base, proj = self.resolve(st, self.parse_place(m.group(1)))
                try:
                    v = self.load(st, base, proj)
                except Unknown:
                    v = None
                self.do_drop(st, v)
                return [(st, m.group(2))]
            m = re.fullmatch(r"(?:(.*?) = )?(.*?) -> (?:\[return: (bb\d+), unwind[^\]]*\]|unwind .*)", s)
            if m and "(" in m.group(2):
                return self.do_call(st, fn, m.group(1), m.group(2), m.group(3))
            # assignment
            m = re.match(r"(.*?) = (.*)", s)
            if m:
                dest = self.parse_place(m.group(1))
                dty = fn.types.get(m.group(1).strip())
                val = self.rvalue(st, fn, dty, m.group(2))
                base, proj = self.resolve(st, dest)
                self.store(st, base, proj, clone(val) if isinstance(val, (Enum, Tup, Struct)) else val)
                continue
            raise Unknown("statement %r in %s" % (stmt, fn.name))
        raise Unknown("block %s of %s has no terminator" % (bb, fn.name))

    def do_drop(self, st, v):
        if isinstance(v, BoxV):
            st.ghost.setdefault("dropped", []).append(v.obj)
        elif isinstance(v, Enum):
            for fs in v.fields.values():
                for x in fs:
                    if isinstance(x, BoxV) and not z3.is_expr(v.disc):
                        st.ghost.setdefault("dropped", []).append(x.obj)

    def switch(self, st, fn, optext, targets):
        v = self.operand(st, optext)
        if z3.is_bool(v):
            v = z3.If(v, z3.BitVecVal(1, 8), z3.BitVecVal(0, 8))
        v = z3.simplify(v)
        tl = []
        other = None
        for t in split_top(targets):
            k, bb = t.split(": ")
            if k.strip() == "otherwise":
                other = bb.strip()
            else:
                tl.append((int(k), bb.strip()))
        res = []
        conds = []
        for k, bb in tl:
            c = v == z3.BitVecVal(k, v.size())
            conds.append(c)
            cs = z3.simplify(c)
            if z3.is_false(cs):
                continue
            if z3.is_true(cs) or self.sat(st.pc, c):
                res.append((c, bb))
        if other is not None:
            c = z3.And(*[z3.Not(x) for x in conds]) if conds else z3.BoolVal(True)
            cs = z3.simplify(c)
            if not z3.is_false(cs) and (z3.is_true(cs) or self.sat(st.pc, c)):
                res.append((c, other))
        outl = []
        for i, (c, bb) in enumerate(res):
            s2 = st if i == len(res) - 1 else st.fork()
            if not z3.is_true(z3.simplify(c)):
                s2.pc.append(c)
            outl.append((s2, bb))
        return outl

    def do_call(self, st, fn, dest, calltext, retbb):
        # split "FUNC(args)" at the last balanced group
        depth = 0
        i = len(calltext) - 1
        if calltext[i] != ")":
            raise Unknown("call syntax %r" % calltext)
        while i >= 0:
            c = calltext[i]
            if c == ")":
                depth += 1
            elif c == "(":
                depth -= 1
                if depth == 0:
                    break
            i -= 1
        callee, argtext = calltext[:i].strip(), calltext[i + 1:-1]
        args = [self.operand(st, a) if re.match(r"(copy|move|const)\s", a) else Token(a) for a in split_top(argtext)]
        dty = fn.types.get(dest.strip()) if dest else None
        results = None
        target = self.resolver(callee, fn)
        if target is not None:
            results = self.call(st, target, args)
        else:
            for rx, handler in self.summaries:
                if re.search(rx, callee):
                    self.used_summaries.add(rx)
                    results = handler(self, st, fn, callee, args, dty)
                    break
            if results is None:
                raise Unknown("no MIR body and no summary for call %r in %s" % (callee, fn.name))
        outl = []
        for s2, val in results:
            if retbb is None:
                continue  # diverging call
            if dest:
                base, proj = self.resolve(s2, self.parse_place(dest))
                self.store(s2, base, proj, val)
            outl.append((s2, retbb))
        return outl
