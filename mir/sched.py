"""Scheduler layer (C10 / C11) on engine M2: the MIR of vm::Runtime::{run_n_steps, run_threads_round_robin,
finish_thread_turn, drain_new_threads, update_status_helper, try_get_main, main, top} and VmGreenThread::{can_run, status},
re-dumped from /repo's current source on every run, executed symbolically against a SCRIPTED thread step:
VmGreenThread::run_n_steps is executed from its MIR too; VmGreenThread::step() applies the next symbolic outcome of that thread's script
(continue / done / error / pending host call / spawn); the outcome variables are z3 bit-vectors shared between runs."""
import fcntl
import os
import re
import subprocess
import sys
import time

sys.path.insert(0, os.path.join(os.path.dirname(os.path.abspath(__file__)), "..", "lib"))
import z3  # noqa: E402
from vcommon import CACHE_ROOT, REPO, base_env  # noqa: E402
import mirvm  # noqa: E402
from mirvm import BoxV, Enum, IterV, QueueV, Ref, Struct, Token, Tup, Unknown  # noqa: E402

OUT_CONTINUE, OUT_DONE, OUT_ERROR, OUT_HOST, OUT_SPAWN = 0, 1, 2, 3, 4
KIND = {"Done": 0, "PendingHostFunc": 1, "OutOfSteps": 2, "MainThreadError": 3}

MIR_FUNCS = ["run_n_steps", "run_threads_round_robin", "finish_thread_turn", "drain_new_threads", "update_status_helper",
             "try_get_main", "main", "top"]
THREAD_FUNCS = ["can_run", "status", "run_n_steps", "validate"]


def dump_mir():
    """MIR of abra_core (lib) from /repo's current working tree; returns (text, seconds)."""
    os.makedirs(CACHE_ROOT, exist_ok=True)
    lock = open(os.path.join(CACHE_ROOT, "mir.lock"), "w")
    fcntl.flock(lock, fcntl.LOCK_EX)
    try:
        src = os.path.join(CACHE_ROOT, "mir_src")
        os.makedirs(src, exist_ok=True)
        subprocess.run(["rsync", "-a", "--delete", "--exclude", "/target", "--exclude", ".git", REPO + "/", src + "/"], check=True)
        os.utime(os.path.join(src, "abra_core", "src", "lib.rs"), None)
        env = base_env()
        env["CARGO_TARGET_DIR"] = os.path.join(CACHE_ROOT, "mir_target")
        env["RUSTFLAGS"] = "--cfg abra_verif"
        t0 = time.time()
        r = subprocess.run(["cargo", "+nightly", "rustc", "--offline", "-p", "abra_core", "--lib", "--", "-Zunpretty=mir",
                            "-C", "debug-assertions=off", "-C", "overflow-checks=on"], cwd=src, env=env, capture_output=True, text=True)
        if r.returncode != 0 or "fn " not in r.stdout:
            raise Unknown("MIR dump failed: " + r.stderr[-600:])
        return r.stdout, time.time() - t0
    finally:
        fcntl.flock(lock, fcntl.LOCK_UN)
        lock.close()


def struct_fields(src, name):
    m = re.search(r"^(?:pub(?:\([^)]*\))? )?struct %s \{\n(.*?)\n\}" % name, src, flags=re.S | re.M)
    if not m:
        raise Unknown("struct %s not found in vm.rs" % name)
    fields = []
    skip = False
    for line in m.group(1).split("\n"):
        line = line.strip()
        if line.startswith("#[cfg(feature"):
            skip = True
            continue
        fm = re.match(r"(?:pub(?:\([^)]*\))? )?(\w+): ", line)
        if fm:
            if not skip:
                fields.append(fm.group(1))
            skip = False
    return fields


def enum_variants(src, name):
    m = re.search(r"enum %s \{\n(.*?)\n\}" % name, src, flags=re.S)
    if not m:
        raise Unknown("enum %s not found in vm.rs" % name)
    out = {}
    for line in m.group(1).split("\n"):
        vm = re.match(r"\s*(\w+)", line)
        if vm and not line.strip().startswith(("//", "#")):
            out[vm.group(1)] = len(out)
    return out


class Sched:
    def __init__(self, mir_text, allow_spawn=True):
        vmrs = open(os.path.join(REPO, "abra_core", "src", "vm.rs")).read()
        self.tf = {n: i for i, n in enumerate(struct_fields(vmrs, "VmGreenThread"))}
        self.rf = {n: i for i, n in enumerate(struct_fields(vmrs, "Runtime"))}
        for need in ("pending_host_func", "error", "pending_ffi_call", "done", "is_main"):
            if need not in self.tf:
                raise Unknown("VmGreenThread has no field %s" % need)
        for need in ("run_queue", "new_threads", "finished_main_thread"):
            if need not in self.rf:
                raise Unknown("Runtime has no field %s" % need)
        enums = {
            "Option": {"None": 0, "Some": 1},
            "Result": {"Ok": 0, "Err": 1},
            "VmStatus": enum_variants(vmrs, "VmStatus"),
            "RuntimeStatusKind": enum_variants(vmrs, "RuntimeStatusKind"),
        }
        if enums["RuntimeStatusKind"] != KIND:
            raise Unknown("RuntimeStatusKind variants changed: %s" % enums["RuntimeStatusKind"])
        allf = mirvm.parse_functions(mir_text)
        self.index = {}
        for name, fn in allf.items():
            m = re.fullmatch(r"vm::<impl at [^>]*>::(\w+)((?:::\{closure#\d+\})?)", name)
            if not m or not fn.params:
                continue
            self_ty = fn.types.get("_1", "")
            if m.group(2):
                # closure: owner is found through the name only
                self.index.setdefault(("closure", m.group(1) + m.group(2)), name)
                continue
            owner = "Runtime" if re.fullmatch(r"&(mut )?Runtime", self_ty) else "VmGreenThread" if re.fullmatch(r"&(mut )?VmGreenThread", self_ty) else None
            if owner:
                self.index.setdefault((owner, m.group(1)), name)
        for f in MIR_FUNCS:
            if ("Runtime", f) not in self.index:
                raise Unknown("no MIR for Runtime::%s" % f)
        for f in THREAD_FUNCS:
            if ("VmGreenThread", f) not in self.index:
                raise Unknown("no MIR for VmGreenThread::%s" % f)
        self.allow_spawn = allow_spawn
        self.m = mirvm.Machine(allf, self.resolver, self.summaries(), enums)
        self.m.named_consts = mirvm.parse_named_consts(mir_text)

    # ------------------------------------------------------------ call resolution
    def resolver(self, callee, fn):
        m = re.fullmatch(r"Runtime::(\w+)", callee)
        if m and m.group(1) in MIR_FUNCS:
            return self.index[("Runtime", m.group(1))]
        m = re.fullmatch(r"VmGreenThread::(\w+)", callee)
        if m and m.group(1) in THREAD_FUNCS:
            return self.index[("VmGreenThread", m.group(1))]
        return None

    # ------------------------------------------------------------ model construction
    def new_thread(self, st, tid, is_main, symbolic_init=False):
        tf = self.tf
        zero = z3.BitVecVal(0, 64)
        one = z3.BitVecVal(1, 64)
        err0, pend0 = zero, zero
        if symbolic_init:
            # an arbitrary valid queued thread: runnable, failed, or waiting for the host (finished tasks are not queued)
            init = z3.BitVec("init_t%d" % tid, 8)
            st.pc.append(z3.ULE(init, 2))
            err0 = z3.If(init == 1, one, zero)
            pend0 = z3.If(init == 2, one, zero)
        t = Struct("VmGreenThread", {
            tf["pending_host_func"]: Enum("Option", pend0, {1: [z3.BitVec("hostfn_t%d" % tid, 16)]}),
            tf["error"]: Enum("Option", err0, {1: [Token("error_of_t%d" % tid)]}),
            tf["pending_ffi_call"]: Enum("Option", zero, {1: [z3.BitVecVal(0, 32)]}),
            tf["done"]: z3.BoolVal(False),
            tf["is_main"]: z3.BoolVal(is_main),
            "tid": tid,
            "top": Token("top_of_t%d" % tid),
        })
        return st.alloc(t)

    def initial(self, nthreads, symbolic_init=True):
        st = mirvm.State()
        objs = [self.new_thread(st, i, i == 0, symbolic_init) for i in range(nthreads)]
        rt = Struct("Runtime", {
            self.rf["run_queue"]: QueueV([BoxV(o) for o in objs]),
            self.rf["new_threads"]: QueueV([]),
            self.rf["finished_main_thread"]: Enum("Option", 0, {}),
        })
        rto = st.alloc(rt)
        st.ghost = {"log": [], "nsteps": {}, "spawned": False, "threads": list(objs), "rt": rto, "next_tid": nthreads}
        return st, rto

    # ------------------------------------------------------------ summaries
    def summaries(self):
        S = self

        def opt_none():
            return Enum("Option", 0, {})

        def opt_some(v):
            return Enum("Option", 1, {1: [v]})

        def concrete_disc(e, what):
            d = e.disc
            if z3.is_expr(d):
                d = z3.simplify(d)
                if not z3.is_bv_value(d):
                    raise Unknown("symbolic discriminant in %s" % what)
                d = d.as_long()
            return d

        def vd_iter(m, st, fn, callee, args, dty):
            return [(st, IterV(args[0], 0))]

        def identity(m, st, fn, callee, args, dty):
            return [(st, args[0])]

        def queue_of(m, st, ref):
            q = m.load(st, ref.base, ref.proj)
            if not isinstance(q, QueueV):
                raise Unknown("expected a queue, got %r" % (q,))
            return q

        def iter_next(m, st, fn, callee, args, dty):
            it = m.load(st, args[0].base, args[0].proj)
            q = queue_of(m, st, it.queue_ref)
            if it.pos < len(q.items):
                r = Ref(it.queue_ref.base, it.queue_ref.proj + (("q", it.pos),))
                it.pos += 1
                return [(st, opt_some(r))]
            return [(st, opt_none())]

        def iter_find(m, st, fn, callee, args, dty):
            cm = re.search(r"closure@", callee)
            if not cm:
                raise Unknown("find without a closure")
            owner = re.fullmatch(r"vm::<impl at [^>]*>::(\w+)", fn.name).group(1)
            cname = S.index.get(("closure", owner + "::{closure#0}"))
            if cname is None:
                raise Unknown("closure of %s not found" % owner)
            results = []
            pending = [(st, m.load(st, args[0].base, args[0].proj).pos)]
            while pending:
                s, pos = pending.pop()
                it = m.load(s, args[0].base, args[0].proj)
                q = queue_of(m, s, it.queue_ref)
                if pos >= len(q.items):
                    it.pos = pos
                    results.append((s, opt_none()))
                    continue
                elem = Ref(it.queue_ref.base, it.queue_ref.proj + (("q", pos),))
                cell = s.alloc(elem)
                for s2, ret in m.call(s, cname, [Token("closure-env"), Ref(("H", cell))]):
                    ret = z3.simplify(ret)
                    yes = not z3.is_false(ret) and (z3.is_true(ret) or m.sat(s2.pc, ret))
                    no = not z3.is_true(ret) and (z3.is_false(ret) or m.sat(s2.pc, z3.Not(ret)))
                    if yes and no:
                        s3 = s2.fork()
                        s3.pc.append(z3.Not(ret))
                        pending.append((s3, pos + 1))
                    if yes:
                        if not z3.is_true(ret):
                            s2.pc.append(ret)
                        m.load(s2, args[0].base, args[0].proj).pos = pos + 1
                        results.append((s2, opt_some(elem)))
                    elif no:
                        if not z3.is_false(ret):
                            s2.pc.append(z3.Not(ret))
                        pending.append((s2, pos + 1))
            return results

        def opt_map_as_ref(m, st, fn, callee, args, dty):
            e = args[0]
            if concrete_disc(e, "Option::map") == 0:
                return [(st, opt_none())]
            r = e.fields[1][0]
            b = m.load(st, r.base, r.proj)
            if not isinstance(b, BoxV):
                raise Unknown("as_ref on %r" % (b,))
            return [(st, opt_some(Ref(("H", b.obj))))]

        def opt_as_deref(m, st, fn, callee, args, dty):
            e = m.load(st, args[0].base, args[0].proj)
            if concrete_disc(e, "Option::as_deref") == 0:
                return [(st, opt_none())]
            return [(st, opt_some(Ref(("H", e.fields[1][0].obj))))]

        def opt_or(m, st, fn, callee, args, dty):
            return [(st, args[0] if concrete_disc(args[0], "Option::or") == 1 else args[1])]

        def opt_unwrap(m, st, fn, callee, args, dty):
            e = args[0]
            d = e.disc if z3.is_expr(e.disc) else z3.BitVecVal(e.disc, 64)
            m.oblige("Option::unwrap on None in %s (host panic)" % fn.name.split("::")[-1], st, d == 0)
            if z3.is_false(z3.simplify(d == 1)):
                return []
            st.pc.append(d == 1)
            return [(st, e.fields[1][0])]

        def opt_is_none(m, st, fn, callee, args, dty):
            e = m.load(st, args[0].base, args[0].proj)
            d = e.disc if z3.is_expr(e.disc) else z3.BitVecVal(e.disc, 64)
            return [(st, d == 0)]

        def vd_len(m, st, fn, callee, args, dty):
            return [(st, z3.BitVecVal(len(queue_of(m, st, args[0]).items), 64))]

        def vd_pop_front(m, st, fn, callee, args, dty):
            q = queue_of(m, st, args[0])
            if not q.items:
                return [(st, opt_none())]
            return [(st, opt_some(q.items.pop(0)))]

        def vd_push_back(m, st, fn, callee, args, dty):
            queue_of(m, st, args[0]).items.append(args[1])
            return [(st, Token("unit"))]

        def try_recv(m, st, fn, callee, args, dty):
            q = queue_of(m, st, args[0])
            if q.items:
                return [(st, Enum("Result", 0, {0: [q.items.pop(0)]}))]
            return [(st, Enum("Result", 1, {1: [Token("TryRecvError::Empty")]}))]

        def box_clone(m, st, fn, callee, args, dty):
            return [(st, m.load(st, args[0].base, args[0].proj))]

        def thread_top(m, st, fn, callee, args, dty):
            t = m.load(st, args[0].base, args[0].proj)
            return [(st, t.f["top"])]

        def fmt_args(m, st, fn, callee, args, dty):
            return [(st, Token("fmt::Arguments"))]

        def panic(m, st, fn, callee, args, dty):
            m.oblige("host panic reachable in %s" % fn.name.split("::")[-1], st, z3.BoolVal(True))
            return []

        def scripted_step(m, st, fn, callee, args, dty):
            """stands for VmGreenThread::step(): applies the next symbolic outcome of the thread's script; returns whether the thread goes on"""
            tf = S.tf
            t = m.load(st, args[0].base, args[0].proj)
            tid = t.f["tid"]
            k = st.ghost["nsteps"].get(tid, 0)
            st.ghost["nsteps"][tid] = k + 1
            out = z3.BitVec("out_t%d_s%d" % (tid, k), 8)
            st.pc.append(z3.ULE(out, OUT_SPAWN if S.allow_spawn else OUT_HOST))
            pend, err, ffi, done = t.f[tf["pending_host_func"]], t.f[tf["error"]], t.f[tf["pending_ffi_call"]], t.f[tf["done"]]
            can_run = z3.And(pend.disc == 0, err.disc == 0, ffi.disc == 0, z3.Not(done))
            m.oblige("a thread that is done, failed or waiting for the host is stepped", st, z3.Not(can_run))
            if args[0].base[1] in st.ghost.get("dropped", []):
                m.oblige("a dropped thread is stepped", st, z3.BoolVal(True))
            st.ghost["log"].append(tid)
            t.f[tf["done"]] = z3.Or(done, out == OUT_DONE)
            err.disc = z3.If(out == OUT_ERROR, z3.BitVecVal(1, 64), err.disc)
            pend.disc = z3.If(out == OUT_HOST, z3.BitVecVal(1, 64), pend.disc)
            goes_on = z3.Not(z3.Or(out == OUT_DONE, out == OUT_ERROR, out == OUT_HOST))
            res = []
            if st.ghost["spawned"]:
                st.pc.append(out != OUT_SPAWN)  # stated bound: at most one spawn per run
            if S.allow_spawn and not st.ghost["spawned"] and m.sat(st.pc, out == OUT_SPAWN):
                s2 = st.fork()
                s2.pc.append(out == OUT_SPAWN)
                s2.ghost["spawned"] = True
                ntid = s2.ghost["next_tid"]
                s2.ghost["next_tid"] = ntid + 1
                o = S.new_thread(s2, ntid, False)
                s2.ghost["threads"].append(o)
                rt = s2.heap[s2.ghost["rt"]]
                rt.f[S.rf["new_threads"]].items.append(BoxV(o))
                res.append((s2, z3.BoolVal(True)))
                st.pc.append(out != OUT_SPAWN)
                if not m.sat(st.pc):
                    return res
            res.append((st, goes_on))
            return res

        def unit(m, st, fn, callee, args, dty):
            return [(st, Token("unit"))]

        def opt_is_some(m, st, fn, callee, args, dty):
            e = m.load(st, args[0].base, args[0].proj)
            d = e.disc if z3.is_expr(e.disc) else z3.BitVecVal(e.disc, 64)
            return [(st, d == 1)]

        def int_min(m, st, fn, callee, args, dty):
            return [(st, z3.If(z3.ULE(args[0], args[1]), args[0], args[1]))]

        def int_max(m, st, fn, callee, args, dty):
            return [(st, z3.If(z3.UGE(args[0], args[1]), args[0], args[1]))]

        return [
            (r"^VecDeque::<.*>::iter$", vd_iter),
            (r"as IntoIterator>::into_iter$", identity),
            (r"as Iterator>::next$", iter_next),
            (r"as Iterator>::find::<\{closure@", iter_find),
            (r"^Option::<.*>::map::<.*as AsRef<.*>>::as_ref\}>$", opt_map_as_ref),
            (r"^Option::<.*>::as_deref$", opt_as_deref),
            (r"^Option::<.*>::or$", opt_or),
            (r"^Option::<.*>::unwrap$", opt_unwrap),
            (r"^Option::<.*>::is_none$", opt_is_none),
            (r"^VecDeque::<.*>::len$", vd_len),
            (r"^VecDeque::<.*>::pop_front$", vd_pop_front),
            (r"^VecDeque::<.*>::push_back$", vd_push_back),
            (r"Receiver::<.*>::try_recv$", try_recv),
            (r"^<Box<VmError> as Clone>::clone$", box_clone),
            (r"^VmGreenThread::top$", thread_top),
            (r"^VmGreenThread::step$", scripted_step),
            (r"^VmGreenThread::maybe_gc$", unit),
            (r"^Option::<.*>::is_some$", opt_is_some),
            (r"^(<u32 as Ord>|<usize as Ord>|std::cmp::Ord|core::cmp::Ord)::min$|^std::cmp::min::<u(32|size)>$", int_min),
            (r"^(<u32 as Ord>|<usize as Ord>|std::cmp::Ord|core::cmp::Ord)::max$|^std::cmp::max::<u(32|size)>$", int_max),
            (r"^Arguments::<.*>::from_str$", fmt_args),
            (r"^panic_fmt$|panicking::panic", panic),
        ]

    # ------------------------------------------------------------ drivers
    def run_n_steps(self, st, budget):
        """one call of the real Runtime::run_n_steps; returns list of (state, kind:int, consumed:BV32, status value)"""
        out = []
        for s, ret in self.m.call(st, self.index[("Runtime", "run_n_steps")], [Ref(("H", st.ghost["rt"])), budget]):
            kind = ret.f[0]
            d = kind.disc
            if z3.is_expr(d):
                d = z3.simplify(d)
                if not z3.is_bv_value(d):
                    raise Unknown("symbolic status kind")
                d = d.as_long()
            out.append((s, d, ret.f[1], kind))
        return out

    def top(self, st):
        return self.m.call(st, self.index[("Runtime", "top")], [Ref(("H", st.ghost["rt"]))])

    # thread facts in a final state
    def facts(self, st, obj):
        t = st.heap[obj]
        tf = self.tf
        return {"done": t.f[tf["done"]], "err": t.f[tf["error"]].disc == 1, "pend": t.f[tf["pending_host_func"]].disc == 1,
                "ffi": t.f[tf["pending_ffi_call"]].disc == 1, "tid": t.f["tid"], "top": t.f["top"], "err_token": t.f[tf["error"]].fields[1][0]}

    def queued(self, st):
        rt = st.heap[st.ghost["rt"]]
        return [b.obj for b in rt.f[self.rf["run_queue"]].items]
