// Included at the end of abra_core/src/parse.rs under cfg(all(kani, abra_verif)).
// C31: the operator tables and the operator-recognition kernels of the Pratt parser.
mod verif {
    #![allow(unused, dead_code, clippy::all)]
    use super::*;

    fn tok(kind: TokenKind, at: usize) -> Token {
        Token { kind, span: Span { lo: at, hi: at + 1 } }
    }
    fn mk_parser(tokens: Vec<Token>) -> Parser {
        Parser::new(tokens, 0, 16)
    }

    // the documented table (book/src/language_reference/operators.md), lowest to highest
    fn documented_binary(op: &BinaryOperator) -> u8 {
        match op {
            BinaryOperator::And | BinaryOperator::Or => 1,
            BinaryOperator::Equal | BinaryOperator::NotEqual => 2,
            BinaryOperator::Format => 3,
            BinaryOperator::LessThan | BinaryOperator::LessThanOrEqual | BinaryOperator::GreaterThan | BinaryOperator::GreaterThanOrEqual => 5,
            BinaryOperator::Add | BinaryOperator::Subtract => 6,
            BinaryOperator::Multiply | BinaryOperator::Divide => 7,
            BinaryOperator::Mod => 8,
            BinaryOperator::Pow => 9,
        }
    }

    // which binary operator each token denotes, and its documented precedence
    #[kani::proof]
    #[kani::unwind(4)]
    fn c31_binop_tokens_and_table() {
        let k: u8 = kani::any();
        kani::assume(k < 17);
        let (kind, want): (TokenKind, Option<(u8, u8)>) = match k {
            0 => (TokenKind::Plus, Some((6, 0))),
            1 => (TokenKind::Minus, Some((6, 1))),
            2 => (TokenKind::Star, Some((7, 2))),
            3 => (TokenKind::Slash, Some((7, 3))),
            4 => (TokenKind::EqEq, Some((2, 4))),
            5 => (TokenKind::NotEq, Some((2, 5))),
            6 => (TokenKind::Lt, Some((5, 6))),
            7 => (TokenKind::Le, Some((5, 7))),
            8 => (TokenKind::Gt, Some((5, 8))),
            9 => (TokenKind::Ge, Some((5, 9))),
            10 => (TokenKind::Mod, Some((8, 10))),
            11 => (TokenKind::Caret, Some((9, 11))),
            12 => (TokenKind::DotDot, Some((3, 12))),
            13 => (TokenKind::And, Some((1, 13))),
            14 => (TokenKind::Or, Some((1, 14))),
            15 => (TokenKind::Eq, None),
            _ => (TokenKind::Comma, None),
        };
        let mut v = Vec::with_capacity(2);
        v.push(tok(kind, 0));
        v.push(tok(TokenKind::Eof, 1));
        let mut p = mk_parser(v);
        let got = p.parse_binop();
        match (got, want) {
            (None, None) => {}
            (Some(op), Some((prec, id))) => {
                assert!(op.precedence() == prec, "binary operator precedence as documented");
                assert!(documented_binary(&op) == prec);
                let same = match (id, &op) {
                    (0, BinaryOperator::Add) | (1, BinaryOperator::Subtract) | (2, BinaryOperator::Multiply) | (3, BinaryOperator::Divide)
                    | (4, BinaryOperator::Equal) | (5, BinaryOperator::NotEqual) | (6, BinaryOperator::LessThan) | (7, BinaryOperator::LessThanOrEqual)
                    | (8, BinaryOperator::GreaterThan) | (9, BinaryOperator::GreaterThanOrEqual) | (10, BinaryOperator::Mod) | (11, BinaryOperator::Pow)
                    | (12, BinaryOperator::Format) | (13, BinaryOperator::And) | (14, BinaryOperator::Or) => true,
                    _ => false,
                };
                assert!(same, "each token denotes its own operator");
            }
            _ => assert!(false, "token recognised as a binary operator iff it is one"),
        }
        kani::cover!(k == 11, "req: power");
        kani::cover!(k == 16, "req: not an operator");
        std::mem::forget(p);
    }

    #[kani::proof]
    fn c31_prefix_postfix_tables() {
        assert!(PrefixOp::Minus.precedence() == 6, "unary minus binds like binary + and -");
        assert!(PrefixOp::Not.precedence() == 10, "not");
        assert!(PostfixOp::MemberAccess.precedence() == 11 && PostfixOp::IndexAccess.precedence() == 12);
        // postfix operators bind tighter than every prefix and binary operator
        assert!(PostfixOp::FuncCall.precedence() > 10 && PostfixOp::Unwrap.precedence() > 10 && PostfixOp::Try.precedence() > 10);
        kani::cover!(true, "req: reachable");
    }

    // A leading `-` must group the same whether its operand is a variable, a parenthesis or a literal: `-2 % 3` like `-x % 3`.
    // The parser reads `-LIT` as one negative literal term (needed for i64::MIN); that is the same grouping as the prefix
    // operator exactly when the token after the literal is not a binary operator binding tighter than unary minus.
    // Obligation: parse_prefix_op answers "prefix minus" for every operand kind, unless the operand is a literal that is NOT
    // followed by a tighter-binding binary operator (tables of parse_binop / precedence, symbolic tokens).
    #[kani::proof]
    #[kani::unwind(4)]
    fn c31_minus_groups_the_same_for_literals_and_variables() {
        let k: u8 = kani::any();
        kani::assume(k < 4);
        let next = match k {
            0 => TokenKind::Ident(String::new()),
            1 => TokenKind::IntLit(String::new()),
            2 => TokenKind::FloatLit(String::new()),
            _ => TokenKind::OpenParen,
        };
        let j: u8 = kani::any();
        kani::assume(j < 18);
        let third = match j {
            0 => TokenKind::Plus, 1 => TokenKind::Minus, 2 => TokenKind::Star, 3 => TokenKind::Slash, 4 => TokenKind::EqEq,
            5 => TokenKind::NotEq, 6 => TokenKind::Lt, 7 => TokenKind::Le, 8 => TokenKind::Gt, 9 => TokenKind::Ge, 10 => TokenKind::Mod,
            11 => TokenKind::Caret, 12 => TokenKind::DotDot, 13 => TokenKind::And, 14 => TokenKind::Or, 15 => TokenKind::Eof,
            16 => TokenKind::CloseParen, _ => TokenKind::Comma,
        };
        // what binary operator (if any) the third token denotes, asked of the real parser
        let mut v3 = Vec::with_capacity(2);
        v3.push(tok(third.clone(), 0));
        v3.push(tok(TokenKind::Eof, 1));
        let mut p3 = mk_parser(v3);
        let tighter = match p3.parse_binop() { Some(op) => op.precedence() > PrefixOp::Minus.precedence(), None => false };
        let mut v = Vec::with_capacity(4);
        v.push(tok(TokenKind::Minus, 0));
        v.push(tok(next, 1));
        v.push(tok(third, 2));
        v.push(tok(TokenKind::Eof, 3));
        let mut p = mk_parser(v);
        let got = p.parse_prefix_op();
        let literal = k == 1 || k == 2;
        if !literal || tighter {
            assert!(matches!(got, Some(PrefixOp::Minus)), "a leading minus groups like the prefix operator whatever its operand is");
        } else {
            assert!(got.is_none(), "a negative literal term only where nothing binds tighter than unary minus");
        }
        kani::cover!(k == 1 && j == 10, "req: integer literal then %");
        kani::cover!(k == 1 && j == 0, "req: integer literal then +");
        kani::cover!(k == 0, "req: variable operand");
        std::mem::forget(p); std::mem::forget(p3);
    }

    #[kani::proof]
    #[kani::unwind(4)]
    fn c31_not_is_prefix_and_others_are_not() {
        let k: u8 = kani::any();
        kani::assume(k < 4);
        let kind = match k { 0 => TokenKind::Not, 1 => TokenKind::Plus, 2 => TokenKind::Bang, _ => TokenKind::Ident(String::new()) };
        let mut v = Vec::with_capacity(2);
        v.push(tok(kind, 0));
        v.push(tok(TokenKind::Eof, 1));
        let mut p = mk_parser(v);
        let got = p.parse_prefix_op();
        assert!(matches!(got, Some(PrefixOp::Not)) == (k == 0), "only `not` (and `-`) are prefix operators");
        kani::cover!(k == 0, "req: not");
        std::mem::forget(p);
    }

    include!(concat!(env!("ABRA_VERIF_HARNESS_DIR"), "/parse_playback.rs"));
}
