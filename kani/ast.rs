// placeholder
