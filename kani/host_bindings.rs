// placeholder
