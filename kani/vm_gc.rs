// C06 / C07: the incremental collector, one step at a time.
//
// Whole collection cycles are out of CBMC's reach (measured, DESIGN section 1), so the
// schedule dimension is discharged by single-step obligations on two-object heaps whose
// COLOURS are symbolic.  Colours: white = !visited, gray = visited && on gray_stack,
// black = visited && !on gray_stack.  The invariant kept during Marking is the strong
// tricolour invariant on heap edges,
//     (S)  no black object holds a reference to a white object,
// together with "gray <=> on gray_stack".  Roots may point at white objects while marking;
// they are rescanned when the gray stack drains, before the switch to sweeping (G4).
//   G1  write barrier: SetIndex / SetField / ArrayPush never create a black->white edge
//   G2  allocation while marking produces a gray object (visited and on the gray stack)
//   G3  one process_gray iteration blackens one gray object and grays its white children
//   G4  Marking -> Sweeping happens only when every root-referenced object is marked
//   G5  one sweep iteration frees exactly an unmarked object / keeps and resets a marked one
//   G6  start_mark_phase grays every root-referenced object (stack and string operands)
//   G7  maybe_gc starts a cycle exactly when the heap doubled since the last cycle
// From S + G4: at the switch all reachable objects are black; from G5 only unmarked objects
// are freed.  That composition is an argument, not a solver result.

pub(super) fn header<'a>(v: Value) -> &'a mut ObjectHeader {
    unsafe { &mut *(v.0 as *mut ObjectHeader) }
}
pub(super) fn on_gray(t: &VmGreenThread, v: Value) -> bool {
    let mut k = 0;
    while k < t.gray_stack.len() {
        if t.gray_stack[k] as u64 == v.0 {
            return true;
        }
        k += 1;
    }
    false
}
// 0 white, 1 gray, 2 black
pub(super) fn paint(t: &mut VmGreenThread, v: Value, colour: u8) {
    header(v).visited = colour != 0;
    if colour == 1 {
        t.gray_stack.push(v.0 as *mut ObjectHeader);
    }
}
pub(super) fn colour_of(t: &VmGreenThread, v: Value) -> u8 {
    if !header(v).visited { 0 } else if on_gray(t, v) { 1 } else { 2 }
}
pub(super) fn sym_colour() -> u8 {
    let c: u8 = kani::any();
    kani::assume(c <= 2);
    c
}

// ---- G1: write barrier ----
macro_rules! barrier_harness {
    ($name:ident, $kind:expr) => {
        vm_harness! {
            #[kani::unwind(9)]
            fn $name() {
                // $kind: 0 SetIndex, 1 SetField, 2 ArrayPush
                let instr = match $kind {
                    0 => norm(Instr::SetIndex(enc(T, 0), enc(T, 0))),
                    1 => norm(Instr::SetField(0, enc(T, 0))),
                    _ => norm(Instr::ArrayPush(enc(T, 0), enc(T, 0))),
                };
                let mut t = mk_thread(vec![instr, Instr::Stop], vec![], vec![]);
                let child = mk_string(&mut t, [b'x', 0, 0], 1);
                let parent: Value = if $kind == 1 {
                    Value::from(StructObject::new(vec![Value::from(0i64)], &mut t))
                } else {
                    let mut d = Vec::with_capacity(4);
                    d.push(Value::from(0i64));
                    Value::from(ArrayObject::new(d, &mut t))
                };
                t.gc_state = GcState::Marking;
                let (pc_, cc) = (sym_colour(), sym_colour());
                paint(&mut t, parent, pc_);
                paint(&mut t, child, cc);
                match $kind {
                    0 => { t.value_stack.push(parent); t.value_stack.push(Value::from(0i64)); t.value_stack.push(child); }
                    1 => { t.value_stack.push(child); t.value_stack.push(parent); }
                    _ => { t.value_stack.push(parent); t.value_stack.push(child); }
                }
                t.pc.0 = 0;
                assert!(t.step());
                let (p2, c2) = (colour_of(&t, parent), colour_of(&t, child));
                assert!(!(p2 == 2 && c2 == 0), "no black -> white edge after the store");
                assert!(p2 == pc_, "the parent's colour is unchanged");
                assert!(c2 == cc || (cc == 0 && c2 == 1), "the child is at most grayed");
                assert!(header(child).visited == on_gray(&t, child) || c2 == 2, "gray <=> on the gray stack");
                kani::cover!(pc_ == 2 && cc == 0, "req: black parent, white child");
                std::mem::forget(t);
            }
        }
    };
}
barrier_harness!(c06_barrier_set_index, 0);
barrier_harness!(c06_barrier_set_field, 1);
barrier_harness!(c06_barrier_array_push, 2);

// ---- G2: allocation colour ----
macro_rules! alloc_colour_harness {
    ($name:ident, $phase:expr) => {
        vm_harness! {
            #[kani::unwind(6)]
            fn $name() {
                let mut t = mk_thread(vec![norm(Instr::ConstructStruct(1)), Instr::Stop], vec![], vec![]);
                let child = mk_string(&mut t, [b'x', 0, 0], 1);
                let phase: u8 = $phase;
                t.gc_state = match phase { 0 => GcState::Idle, 1 => GcState::Marking, _ => GcState::Sweeping { index: 0 } };
                header(child).visited = false;
                t.value_stack.push(child);
                t.pc.0 = 0;
                assert!(t.step());
                let s = t.value_stack[0];
                assert!(s.1 == ValueTag::Struct && in_heap(&t, s), "registered with the collector");
                if phase == 1 {
                    assert!(header(s).visited && on_gray(&t, s), "an object allocated while marking is gray (its fields get scanned)");
                } else if phase == 2 {
                    assert!(header(s).visited, "objects allocated while sweeping survive this cycle");
                } else {
                    assert!(!header(s).visited, "objects allocated while idle start white");
                }
                kani::cover!(true, "req: reachable");
                std::mem::forget(t);
            }
        }
    };
}
alloc_colour_harness!(c06_alloc_while_idle_is_white, 0);
alloc_colour_harness!(c06_alloc_while_marking_is_gray, 1);
alloc_colour_harness!(c06_alloc_while_sweeping_survives, 2);

// ---- G3: one process_gray iteration ----
// colours are concrete per harness (a symbolic gray-stack length did not finish: measured 1500 s)
macro_rules! process_gray_harness {
    ($name:ident, $kind:expr, $cc:expr, $oc:expr) => {
        vm_harness! {
            #[kani::unwind(6)]
            fn $name() {
                // parent kind: 0 array, 1 struct, 2 variant; one child string of colour $cc; an unrelated object of colour $oc
                let mut t = mk_thread(vec![Instr::Stop], vec![], vec![]);
                let child = mk_string(&mut t, [b'x', 0, 0], 1);
                let other = mk_string(&mut t, [b'y', 0, 0], 1);
                let payload: u64 = kani::any();
                let parent: Value = match $kind {
                    0 => { let mut d = Vec::with_capacity(2); d.push(child); d.push(Value(payload, ValueTag::Int)); Value::from(ArrayObject::new(d, &mut t)) }
                    1 => Value::from(StructObject::new(vec![Value(payload, ValueTag::Int), child], &mut t)),
                    _ => Value::from(EnumObject::new(1, child, &mut t)),
                };
                t.gc_state = GcState::Marking;
                let (cc, oc): (u8, u8) = ($cc, $oc);
                paint(&mut t, other, oc);
                paint(&mut t, child, cc);
                paint(&mut t, parent, 1); // parent gray, on top of the gray stack
                let mut batch: usize = 1;
                t.process_gray(&mut batch);
                assert!(colour_of(&t, parent) == 2, "the scanned object is black");
                let c2 = colour_of(&t, child);
                assert!(c2 != 0, "its child is no longer white");
                assert!(c2 == cc || (cc == 0 && c2 == 1), "a white child becomes gray; other colours are kept");
                assert!(colour_of(&t, other) == oc, "no spurious marking of unrelated objects");
                if c2 == 1 {
                    assert!(t.gc_state == GcState::Marking, "still marking while gray objects remain");
                }
                kani::cover!(true, "req: reachable");
                std::mem::forget(t);
            }
        }
    };
}
process_gray_harness!(c06_process_gray_array_white_child, 0, 0, 0);
process_gray_harness!(c06_process_gray_array_black_child, 0, 2, 2);
process_gray_harness!(c06_process_gray_array_gray_child, 0, 1, 0);
process_gray_harness!(c06_process_gray_struct_white_child, 1, 0, 2);
process_gray_harness!(c06_process_gray_struct_black_child, 1, 2, 0);
process_gray_harness!(c06_process_gray_variant_white_child, 2, 0, 0);
process_gray_harness!(c06_process_gray_variant_gray_child, 2, 1, 2);

// ---- G4: the switch to sweeping ----
macro_rules! drain_harness {
    ($name:ident, $colour:expr, $place:expr) => {
        vm_harness! {
            #[kani::unwind(6)]
            fn $name() {
                // the gray stack has drained; the operand stack (or a parked string operand) holds an object of
                // colour $colour -- e.g. one popped from an array after the roots were scanned
                let mut t = mk_thread(vec![Instr::Stop], vec![], vec![]);
                let obj = mk_string(&mut t, [b'x', 0, 0], 1);
                t.gc_state = GcState::Marking;
                let c: u8 = $colour;
                paint(&mut t, obj, c);
                match $place {
                    0 => t.value_stack.push(obj),
                    1 => t.string_operand1 = obj,
                    _ => t.string_operand2 = obj,
                }
                let n: u64 = kani::any();
                t.value_stack.push(Value(n, ValueTag::Int));
                let mut batch: usize = 64;
                t.process_gray(&mut batch);
                if let GcState::Sweeping { .. } = t.gc_state {
                    assert!(header(obj).visited, "sweeping starts only when every root-referenced object is marked");
                    assert!(t.gray_stack.is_empty(), "no gray object is left when sweeping starts (its children would not be traced)");
                }
                if c == 0 {
                    assert!(header(obj).visited || t.gc_state == GcState::Marking, "a white root is either marked now or marking continues");
                }
                kani::cover!(true, "req: reachable");
                std::mem::forget(t);
            }
        }
    };
}
drain_harness!(c06_no_sweep_while_stack_root_is_white, 0, 0);
drain_harness!(c06_no_sweep_while_operand1_is_white, 0, 1);
drain_harness!(c06_no_sweep_while_operand2_is_white, 0, 2);
drain_harness!(c06_sweep_starts_when_roots_are_black, 2, 0);
// a root found white by the rescan has children: they must be traced before anything is swept
vm_harness! {
    #[kani::unwind(6)]
    fn c06_rescanned_root_is_traced_before_sweep() {
        let mut t = mk_thread(vec![Instr::Stop], vec![], vec![]);
        let child = mk_string(&mut t, [b'c', 0, 0], 1);
        let mut d = Vec::with_capacity(2);
        d.push(child);
        let root = Value::from(ArrayObject::new(d, &mut t));
        t.gc_state = GcState::Marking;
        paint(&mut t, child, 0);
        paint(&mut t, root, 0);
        t.value_stack.push(root); // e.g. popped from an array after the roots were scanned
        // two collector increments with a generous budget each
        let mut batch: usize = 1 << 20;
        t.process_gray(&mut batch);
        if let GcState::Sweeping { .. } = t.gc_state {
            assert!(header(root).visited && header(child).visited, "everything reachable from a rescanned root is marked before sweeping");
        }
        let mut batch: usize = 1 << 20;
        t.process_gray(&mut batch);
        if let GcState::Sweeping { .. } = t.gc_state {
            assert!(header(root).visited && header(child).visited, "everything reachable from a rescanned root is marked before sweeping");
            assert!(t.gray_stack.is_empty());
        }
        kani::cover!(matches!(t.gc_state, GcState::Sweeping { .. }), "req: sweeping is reached after the second increment");
        std::mem::forget(t);
    }
}

// ---- G5: one sweep iteration ----
vm_harness! {
    #[kani::unwind(3)]
    fn x_sweep_step() { // superseded by the MIR-level sweep obligations of checks/c07.py (intractable under CBMC since d7382ab)
        let mut t = mk_thread(vec![Instr::Stop], vec![], vec![]);
        let a = mk_string(&mut t, [b'a', 0, 0], 1);
        let mut d = Vec::with_capacity(2);
        d.push(Value::from(1i64));
        let b = Value::from(ArrayObject::new(d, &mut t));
        let (va, vb): (bool, bool) = (kani::any(), kani::any());
        header(a).visited = va;
        header(b).visited = vb;
        t.gc_state = GcState::Sweeping { index: 0 };
        let size_before = t.heap_size;
        let na = header(a).nbytes();
        t.sweep(1); // one unit of work = one object
        if va {
            assert!(t.heap_list.len() == 2 && t.heap_list[0] as u64 == a.0, "a marked object is kept");
            assert!(!header(a).visited, "and reset to white for the next cycle");
            assert!(t.heap_size == size_before);
            assert!(t.gc_state == GcState::Sweeping { index: 1 }, "the sweep position advances");
        } else {
            assert!(t.heap_list.len() == 1 && t.heap_list[0] as u64 == b.0, "an unmarked object leaves the heap list");
            assert!(t.heap_size == size_before - na, "its bytes are returned to the accounting");
            assert!(t.gc_state == GcState::Sweeping { index: 0 }, "the swapped-in object is examined next");
        }
        assert!(header(b).visited == vb, "objects not yet reached are untouched");
        // finish the sweep
        t.sweep(usize::MAX);
        assert!(t.gc_state == GcState::Idle, "the cycle ends when the list is exhausted");
        assert!(t.last_gc_heap_size == t.heap_size, "pacing baseline updated");
        assert!(t.heap_list.len() == (va as usize) + (vb as usize), "exactly the marked objects survive");
        kani::cover!(!va && vb, "req: first freed, second kept");
        kani::cover!(va && !vb, "req: first kept, second freed");
        std::mem::forget(t);
    }
}

// ---- G6: root scan ----
vm_harness! {
    #[kani::unwind(9)]
    fn c06_start_mark_grays_roots() {
        let mut t = mk_thread(vec![Instr::Stop], vec![], vec![]);
        let on_stack = mk_string(&mut t, [b'a', 0, 0], 1);
        let in_local = Value::from(StructObject::new(vec![Value::from(1i64)], &mut t));
        let parked = mk_string(&mut t, [b'b', 0, 0], 1);
        let unreachable = mk_string(&mut t, [b'c', 0, 0], 1);
        t.value_stack.push(in_local);
        t.value_stack.push(Value::from(7i64));
        t.value_stack.push(on_stack);
        let which: bool = kani::any();
        if which { t.string_operand1 = parked; } else { t.string_operand2 = parked; }
        t.start_mark_phase();
        assert!(t.gc_state == GcState::Marking);
        assert!(colour_of(&t, on_stack) == 1 && colour_of(&t, in_local) == 1, "objects on the operand stack and in locals are gray");
        assert!(colour_of(&t, parked) == 1, "operands of a suspended string operation are roots");
        assert!(colour_of(&t, unreachable) == 0, "nothing else is marked");
        assert!(t.gray_stack.len() == 3);
        kani::cover!(which, "req: parked in operand 1");
        std::mem::forget(t);
    }
}

// ---- G7: pacing ----
vm_harness! {
    #[kani::unwind(9)]
    fn c07_cycle_starts_when_heap_doubled() {
        let mut t = mk_thread(vec![Instr::Stop], vec![], vec![]);
        let hs: usize = kani::any();
        let last: usize = kani::any();
        kani::assume(hs < (1 << 40) && last < (1 << 40));
        t.heap_size = hs;
        t.last_gc_heap_size = last;
        t.maybe_gc();
        if hs > 2 * last {
            assert!(t.gc_state == GcState::Marking, "a cycle starts once the heap has doubled since the last cycle");
        } else {
            assert!(t.gc_state == GcState::Idle);
        }
        kani::cover!(hs > 2 * last, "req: triggers");
        kani::cover!(hs <= 2 * last && hs > 0, "req: does not trigger");
        std::mem::forget(t);
    }
}

// ---- C07 (b): dropping a thread / the shared block frees its objects: decided on the MIR level (engine M2, checks/c07.py).
// Under Kani the liveness of a freed allocation is not observable (kani::mem::can_dereference on freed memory is an
// "unsupported construct" failure) and dropping a VmGreenThread drags std's recursive mpsc::Sender drop glue in (> 900 s).
