// Included at the end of abra_core/src/vm.rs under cfg(all(kani, abra_verif)).
// Being inside the module, the harnesses reach the private items of the VM.
mod verif {
    #![allow(unused, dead_code, clippy::all, static_mut_refs)]
    use super::*;
    include!(concat!(env!("ABRA_VERIF_HARNESS_DIR"), "/vm_common.rs"));
    include!(concat!(env!("ABRA_VERIF_HARNESS_DIR"), "/vm_arith.rs"));
    include!(concat!(env!("ABRA_VERIF_HARNESS_DIR"), "/vm_float.rs"));
    include!(concat!(env!("ABRA_VERIF_HARNESS_DIR"), "/vm_strings.rs"));
    include!(concat!(env!("ABRA_VERIF_HARNESS_DIR"), "/vm_arrays.rs"));
    include!(concat!(env!("ABRA_VERIF_HARNESS_DIR"), "/vm_misc.rs"));
    include!(concat!(env!("ABRA_VERIF_HARNESS_DIR"), "/vm_tasks.rs"));
    include!(concat!(env!("ABRA_VERIF_HARNESS_DIR"), "/vm_runtime.rs"));
    include!(concat!(env!("ABRA_VERIF_HARNESS_DIR"), "/vm_gc.rs"));
    include!(concat!(env!("ABRA_VERIF_HARNESS_DIR"), "/vm_loc.rs"));
    include!(concat!(env!("ABRA_VERIF_HARNESS_DIR"), "/vm_marshal.rs"));
    include!(concat!(env!("ABRA_VERIF_HARNESS_DIR"), "/vm_peephole.rs"));
    include!(concat!(env!("ABRA_VERIF_HARNESS_DIR"), "/vm_playback.rs"));
}
