// placeholder
