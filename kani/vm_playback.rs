// placeholder
