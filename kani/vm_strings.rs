// C17: string comparison and concatenation are resumable instructions (one byte per
// step()).  Instead of unrolling the loop, each harness takes ONE step from an arbitrary
// valid state -- entry (operands on the stack, index 0) or in flight (operands parked in
// the thread, index i under the invariant "the first i bytes are equal" / "builder holds
// a[..i1] ++ b[..i2]") -- and shows: the instruction either finishes with the reference
// answer on the whole strings, or rewinds pc, advances by one byte and re-establishes the
// invariant.  Induction over steps then covers every slicing for all strings of <= 3 bytes.

pub(super) fn lex_cmp(a: [u8; 3], la: usize, b: [u8; 3], lb: usize) -> i8 {
    let mut k = 0;
    while k < 3 {
        if k >= la || k >= lb {
            break;
        }
        if a[k] != b[k] {
            return if a[k] < b[k] { -1 } else { 1 };
        }
        k += 1;
    }
    if la < lb { -1 } else if la > lb { 1 } else { 0 }
}

pub(super) fn prefix_equal(a: [u8; 3], b: [u8; 3], i: usize) -> bool {
    (i < 1 || a[0] == b[0]) && (i < 2 || a[1] == b[1]) && (i < 3 || a[2] == b[2])
}

// kind: 0 ==, 1 <, 2 <=, 3 >, 4 >=
pub(super) fn cmp_answer(kind: u8, c: i8) -> bool {
    match kind {
        0 => c == 0,
        1 => c < 0,
        2 => c <= 0,
        3 => c > 0,
        _ => c >= 0,
    }
}

macro_rules! string_cmp_harness {
    ($name:ident, $variant:ident, $kind:expr, $i:expr, $dm:expr, $m1:expr, $m2:expr) => {
        vm_harness! {
            #[kani::unwind(9)]
            fn $name() {
                let (od, o1, o2) = (OFF_DEST, OFF_R1, OFF_R2);
                let mut t = mk_thread(
                    vec![Instr::$variant(enc($dm, od), enc($m1, o1), enc($m2, o2)), Instr::Stop],
                    vec![], vec![],
                );
                let (ba, bb) = (sym_ascii3(), sym_ascii3());
                let la: usize = kani::any();
                let lb: usize = kani::any();
                kani::assume(la <= 3 && lb <= 3);
                let va = mk_string(&mut t, ba, la);
                let vb = mk_string(&mut t, bb, lb);
                push_frame(&mut t, ValueTag::Int);
                // the progress index is concrete per harness ($i = 0: entry with operands on the
                // stack; $i >= 1: in flight).  A symbolic index ran CBMC out of memory (measured).
                let i: usize = $i;
                if i == 0 {
                    if $m1 == O { t.value_stack[slot(o1)] = va; }
                    if $m2 == O { t.value_stack[slot(o2)] = vb; }
                    if $m1 == T { t.value_stack.push(va); }
                    if $m2 == T { t.value_stack.push(vb); }
                } else {
                    kani::assume(i <= la && i <= lb);
                    kani::assume(prefix_equal(ba, bb, i));
                    t.string_operand1 = va;
                    t.string_operand2 = vb;
                    t.string_op_index1 = i;
                }
                let mut model = t.value_stack.clone();
                if i == 0 {
                    let _ = fetch(&mut model, $m2, o2);
                    let _ = fetch(&mut model, $m1, o1);
                }
                t.pc.0 = 0;
                let cont = t.step();
                assert!(cont && t.error.is_none(), "string comparison never fails");
                if t.pc.0 == 1 {
                    // finished: reference answer on the whole strings
                    let expect = cmp_answer($kind, lex_cmp(ba, la, bb, lb));
                    put(&mut model, $dm, od, Value::from(expect));
                    assert!(same_stack(&t.value_stack, &model), "result is the lexicographic byte-order answer");
                    assert!(t.string_op_index1 == 0, "progress index reset for the next string operation");
                    kani::cover!(expect, "info: finished with true");
                    kani::cover!(!expect, "info: finished with false");
                } else {
                    // in flight: one more equal byte consumed, nothing else changed
                    assert!(t.pc.0 == 0, "pc rewound to re-execute the instruction");
                    assert!(t.string_op_index1 == i + 1, "advanced by exactly one byte");
                    assert!(i + 1 <= la && i + 1 <= lb && prefix_equal(ba, bb, i + 1), "invariant re-established");
                    assert!(same_stack(&t.value_stack, &model), "operand stack untouched while in flight");
                    assert!(t.string_operand1.0 == va.0 && t.string_operand2.0 == vb.0
                        && t.string_operand1.1 == ValueTag::String && t.string_operand2.1 == ValueTag::String,
                        "operands parked in the thread (GC roots)");
                    kani::cover!(true, "info: continues");
                }
                kani::cover!(true, "req: step outcome reachable");
                std::mem::forget(t);
            }
        }
    };
}

string_cmp_harness!(c17_eq_entry, EqualString, 0, 0, T, T, T);
string_cmp_harness!(c17_eq_resume1, EqualString, 0, 1, T, T, T);
string_cmp_harness!(c17_eq_resume2, EqualString, 0, 2, T, T, T);
string_cmp_harness!(c17_eq_resume3, EqualString, 0, 3, T, T, T);
string_cmp_harness!(c17_lt_entry, LessThanString, 1, 0, T, T, T);
string_cmp_harness!(c17_lt_resume1, LessThanString, 1, 1, T, T, T);
string_cmp_harness!(c17_lt_resume2, LessThanString, 1, 2, T, T, T);
string_cmp_harness!(c17_lt_resume3, LessThanString, 1, 3, T, T, T);
string_cmp_harness!(c17_le_entry, LessThanOrEqualString, 2, 0, T, T, T);
string_cmp_harness!(c17_le_resume1, LessThanOrEqualString, 2, 1, T, T, T);
string_cmp_harness!(c17_le_resume2, LessThanOrEqualString, 2, 2, T, T, T);
string_cmp_harness!(c17_le_resume3, LessThanOrEqualString, 2, 3, T, T, T);
string_cmp_harness!(c17_gt_entry, GreaterThanString, 3, 0, T, T, T);
string_cmp_harness!(c17_gt_resume1, GreaterThanString, 3, 1, T, T, T);
string_cmp_harness!(c17_gt_resume2, GreaterThanString, 3, 2, T, T, T);
string_cmp_harness!(c17_gt_resume3, GreaterThanString, 3, 3, T, T, T);
string_cmp_harness!(c17_ge_entry, GreaterThanOrEqualString, 4, 0, T, T, T);
string_cmp_harness!(c17_ge_resume1, GreaterThanOrEqualString, 4, 1, T, T, T);
string_cmp_harness!(c17_ge_resume2, GreaterThanOrEqualString, 4, 2, T, T, T);
string_cmp_harness!(c17_ge_resume3, GreaterThanOrEqualString, 4, 3, T, T, T);
string_cmp_harness!(c17_lt_entry_ooo, LessThanString, 1, 0, O, O, O);
string_cmp_harness!(c17_eq_resume2_odest, EqualString, 0, 2, O, T, T);

// ---- concatenation ----
pub(super) fn concat_byte(a: [u8; 3], la: usize, b: [u8; 3], lb: usize, k: usize) -> u8 {
    if k < la { a[k] } else { b[k - la] }
}

// C10: trimming a thread's buffers between slices (VmGreenThread::compact, callable by the embedder after any run_n_steps) must be invisible
// to the program -- in particular to a resumable string instruction that the slice boundary interrupted: its parked operands, progress
// indices and partial result are exactly the state the next step continues from (c17_concat_i* / c17_*_i* start from such states).
vm_harness! {
    #[kani::unwind(5)]
    fn c10_compact_keeps_in_flight_state() {
        let mut t = mk_thread(vec![Instr::ConcatStrings(enc(T, OFF_DEST), enc(T, 0), enc(T, 0)), Instr::Stop], vec![], vec![]);
        let (ba, bb) = (sym_ascii3(), sym_ascii3());
        let va = mk_string(&mut t, ba, 2);
        let vb = mk_string(&mut t, bb, 1);
        let x = sym_val(ValueTag::Int);
        t.value_stack.push(x);
        t.string_operand1 = va;
        t.string_operand2 = vb;
        let i1: usize = kani::any();
        kani::assume(i1 <= 2);
        t.string_op_index1 = i1;
        t.string_op_index2 = 0;
        let byte: u8 = kani::any();
        let mut builder: Vec<u8> = Vec::with_capacity(6);
        builder.push(byte);
        t.concat_string_builder = builder;
        let (pc0, heap0, objs0, frames0) = (t.pc.0, t.heap_size, t.heap_list.len(), t.call_stack.len());
        t.compact();
        assert!(t.string_operand1.0 == va.0 && t.string_operand1.1 == ValueTag::String, "first parked operand survives");
        assert!(t.string_operand2.0 == vb.0 && t.string_operand2.1 == ValueTag::String, "second parked operand survives");
        assert!(t.string_op_index1 == i1 && t.string_op_index2 == 0, "progress survives");
        assert!(t.concat_string_builder.len() == 1 && t.concat_string_builder[0] == byte, "partial result survives");
        assert!(t.value_stack.len() == 1 && t.value_stack[0].0 == x.0 && t.value_stack[0].1 == x.1, "operand stack unchanged");
        assert!(t.pc.0 == pc0 && t.heap_size == heap0 && t.heap_list.len() == objs0 && t.call_stack.len() == frames0, "nothing else moves");
        assert!(t.error.is_none() && !t.done);
        kani::cover!(i1 == 1, "req: interrupted in the middle of the first operand");
        std::mem::forget(t);
    }
}

macro_rules! concat_harness {
    ($name:ident, $i1:expr, $i2:expr, $dm:expr) => { concat_harness!($name, $i1, $i2, $dm, 9usize, 9usize); };
    ($name:ident, $i1:expr, $i2:expr, $dm:expr, $cla:expr, $clb:expr) => {
        vm_harness! {
            #[kani::unwind(9)]
            fn $name() {
                let od = OFF_DEST;
                let mut t = mk_thread(
                    vec![Instr::ConcatStrings(enc($dm, od), enc(T, 0), enc(T, 0)), Instr::Stop],
                    vec![], vec![],
                );
                let (ba, bb) = (sym_ascii3(), sym_ascii3());
                // the entry step allocates the builder with capacity |a| + |b|: a symbolic allocation size does not
                // finish under CBMC (measured), so entry harnesses fix the two lengths ($cla, $clb; 9 = symbolic)
                let la: usize = if $cla <= 3 { $cla } else { kani::any() };
                let lb: usize = if $clb <= 3 { $clb } else { kani::any() };
                kani::assume(la <= 3 && lb <= 3);
                let va = mk_string(&mut t, ba, la);
                let vb = mk_string(&mut t, bb, lb);
                push_frame(&mut t, ValueTag::Int);
                // progress indices are concrete per harness (0,0 = entry); bytes symbolic
                let (i1, i2): (usize, usize) = ($i1, $i2);
                if i1 == 0 && i2 == 0 {
                    t.value_stack.push(va);
                    t.value_stack.push(vb);
                } else {
                    kani::assume(i1 <= la && i2 <= lb);
                    kani::assume(i2 == 0 || i1 == la);
                    t.string_operand1 = va;
                    t.string_operand2 = vb;
                    t.string_op_index1 = i1;
                    t.string_op_index2 = i2;
                    let mut builder: Vec<u8> = Vec::with_capacity(6);
                    let mut k = 0;
                    while k < i1 + i2 {
                        builder.push(concat_byte(ba, la, bb, lb, k));
                        k += 1;
                    }
                    t.concat_string_builder = builder;
                }
                let mut model = t.value_stack.clone();
                if i1 == 0 && i2 == 0 {
                    model.pop();
                    model.pop();
                }
                let heap_before = t.heap_list.len();
                t.pc.0 = 0;
                let cont = t.step();
                assert!(cont && t.error.is_none(), "concatenation never fails");
                if t.pc.0 == 1 {
                    assert!(i1 == la && i2 == lb, "finishes only when every byte was copied");
                    assert!(t.string_op_index1 == 0 && t.string_op_index2 == 0, "progress indices reset");
                    assert!(t.heap_list.len() == heap_before + 1, "exactly one new string object");
                    let r = if $dm == T { t.value_stack[t.value_stack.len() - 1] } else { t.value_stack[slot(od)] };
                    assert!(r.1 == ValueTag::String);
                    let s = r.view_string(&t).as_bytes();
                    assert!(s.len() == la + lb, "length of the concatenation");
                    let mut k = 0;
                    while k < 6 {
                        if k < la + lb {
                            assert!(s[k] == concat_byte(ba, la, bb, lb, k), "byte-exact concatenation");
                        }
                        k += 1;
                    }
                    put(&mut model, $dm, od, r);
                    assert!(same_stack(&t.value_stack, &model), "exactly one result stored");
                    kani::cover!(true, "info: finished");
                } else {
                    assert!(t.pc.0 == 0, "pc rewound");
                    assert!(same_stack(&t.value_stack, &model), "operand stack untouched while in flight");
                    let (n1, n2) = (t.string_op_index1, t.string_op_index2);
                    assert!((n1 == i1 + 1 && n2 == i2) || (n1 == i1 && n2 == i2 + 1), "one byte of progress");
                    assert!(n1 <= la && n2 <= lb && (n2 == 0 || n1 == la), "index invariant re-established");
                    assert!(t.concat_string_builder.len() == n1 + n2, "builder grew by one byte");
                    let mut k = 0;
                    while k < 6 {
                        if k < n1 + n2 {
                            assert!(t.concat_string_builder[k] == concat_byte(ba, la, bb, lb, k), "builder = a[..i1] ++ b[..i2]");
                        }
                        k += 1;
                    }
                    assert!(t.string_operand1.0 == va.0 && t.string_operand2.0 == vb.0, "operands parked in the thread");
                    kani::cover!(true, "info: continues");
                }
                kani::cover!(true, "req: step outcome reachable");
                std::mem::forget(t);
            }
        }
    };
}
concat_harness!(c17_concat_entry_00, 0, 0, T, 0usize, 0usize);
concat_harness!(c17_concat_entry_21, 0, 0, T, 2usize, 1usize);
concat_harness!(c17_concat_entry_03, 0, 0, T, 0usize, 3usize);
concat_harness!(x_concat_entry_30, 0, 0, T, 3usize, 0usize);
concat_harness!(c17_concat_i10, 1, 0, T);
concat_harness!(c17_concat_i20, 2, 0, T);
concat_harness!(c17_concat_i30, 3, 0, T);
concat_harness!(c17_concat_i01, 0, 1, T);
concat_harness!(c17_concat_i02, 0, 2, T);
concat_harness!(c17_concat_i11, 1, 1, T);
concat_harness!(c17_concat_i21, 2, 1, T);
concat_harness!(c17_concat_i32, 3, 2, T);
concat_harness!(c17_concat_i33, 3, 3, T);
concat_harness!(c17_concat_i13, 1, 3, T);
concat_harness!(c17_concat_i21_odest, 2, 1, O);
