// Shared scaffolding for the VM harnesses (engine K).
use crate::assembly::Reg;
use std::sync::mpsc::SendError;

// ---- stubs (part of every claim; listed in the evidence by the runner) ----
pub(super) fn fail_stub(_t: &VmGreenThread, _kind: VmErrorKind) -> ! {
    panic!("internal vm fault")
}
pub(super) fn loc_stub(_t: &VmGreenThread, _pc: ProgramCounter) -> VmErrorLocation {
    VmErrorLocation {
        filename: String::new(),
        lineno: 0,
        function_name: String::new(),
    }
}
pub(super) fn trace_stub(_t: &VmGreenThread) -> Vec<VmErrorLocation> {
    Vec::new()
}
// Ghost slot for the last thread handed to the scheduler queue (type-erased so
// that the stub can stay generic like `Sender<T>::send`).
pub(super) static mut SENT_PTR: *mut u8 = std::ptr::null_mut();
pub(super) static mut SENT_COUNT: usize = 0;
pub(super) fn send_stub<T>(_s: &Sender<T>, t: T) -> Result<(), SendError<T>> {
    unsafe {
        SENT_COUNT += 1;
        SENT_PTR = Box::into_raw(Box::new(t)) as *mut u8;
    }
    Ok(())
}
pub(super) fn take_sent_thread() -> Box<VmGreenThread> {
    unsafe {
        let p = SENT_PTR as *mut Box<VmGreenThread>;
        *Box::from_raw(p)
    }
}

// ---- error kinds as small integers ----
pub(super) const EK_NONE: u8 = 0;
pub(super) const EK_OOB: u8 = 1;
pub(super) const EK_PANIC: u8 = 2;
pub(super) const EK_OVERFLOW: u8 = 3;
pub(super) const EK_DIVZERO: u8 = 4;
pub(super) const EK_INTERNAL: u8 = 9;
pub(super) fn err_code(t: &VmGreenThread) -> u8 {
    match &t.error {
        None => EK_NONE,
        Some(e) => match e.kind {
            VmErrorKind::ArrayOutOfBounds => EK_OOB,
            VmErrorKind::Panic(_) => EK_PANIC,
            VmErrorKind::IntegerOverflowUnderflow => EK_OVERFLOW,
            VmErrorKind::DivisionByZero => EK_DIVZERO,
            _ => EK_INTERNAL,
        },
    }
}

// Under Kani the enum is repr(u16): a union of repr(C) structs that start with the u16 tag.
// Variants with two u16 operands leave two padding bytes, which CBMC treats as nondeterministic;
// measured: with such an instruction the fetch is not constant-folded, the Top flag of the
// destination register stays symbolic and propositional reduction needs > 60 GB.  Rebuilding
// the instruction from its tag and operands with the padding defined makes it a constant again.
pub(super) fn from_words(template: &Instr, w1: u16, w2: u16, w3: u16) -> Instr {
    unsafe {
        let tag: u16 = *(template as *const Instr as *const u16);
        let words: [u16; 4] = [tag, w1, w2, w3];
        std::ptr::read(&words as *const [u16; 4] as *const Instr)
    }
}
pub(super) fn lo(x: u32) -> u16 { x as u16 }
pub(super) fn hi(x: u32) -> u16 { (x >> 16) as u16 }

// Rebuilds an instruction from its tag and operand words with all padding bytes defined
// (repr(u16) layout: tag at 0, u16 operands at 2/4/6, a u32 operand at 4).
pub(super) fn norm(i: Instr) -> Instr {
    match i {
        // no operands
        Instr::Pop | Instr::Duplicate | Instr::ReturnVoid | Instr::Stop | Instr::Panic | Instr::ConstructChannel
        | Instr::DeconstructStruct | Instr::DeconstructArray | Instr::DeconstructVariant | Instr::ChannelRead
        | Instr::ChannelWrite => from_words(&i, 0, 0, 0),
        // one 16-bit operand
        Instr::LoadOffset(n) | Instr::StoreOffset(n) => from_words(&i, n as u16, 0, 0),
        Instr::PushNil(n) | Instr::HostFunc(n) | Instr::ConstructStruct(n) | Instr::ConstructArray(n) | Instr::MakeClosure(n) => from_words(&i, n, 0, 0),
        Instr::ConstructVariant { tag } => from_words(&i, tag, 0, 0),
        Instr::PushBool(b) => from_words(&i, b as u16, 0, 0),
        // one 32-bit operand (at offset 4)
        Instr::PushInt(n) | Instr::PushFloat(n) | Instr::PushString(n) | Instr::CallFuncObj(n) | Instr::CallForeign(n) | Instr::Return(n) => from_words(&i, 0, lo(n), hi(n)),
        Instr::PushAddr(pc) | Instr::Jump(pc) | Instr::JumpIf(pc) | Instr::JumpIfFalse(pc) => from_words(&i, 0, lo(pc.0), hi(pc.0)),
        Instr::Call(cd) => from_words(&i, 0, lo(cd.0), hi(cd.0)),
        Instr::SpawnTask(n, pc) => from_words(&i, n, lo(pc.0), hi(pc.0)),
        // two 16-bit operands
        Instr::StoreOffsetImm(n, imm) => from_words(&i, n as u16, imm, 0),
        Instr::Ceil(a, b) | Instr::Floor(a, b) | Instr::Round(a, b) | Instr::SquareRoot(a, b) | Instr::Sin(a, b) | Instr::Cos(a, b)
        | Instr::Tan(a, b) | Instr::Asin(a, b) | Instr::Acos(a, b) | Instr::Atan(a, b) | Instr::Log(a, b) | Instr::Log2(a, b)
        | Instr::Log10(a, b) | Instr::Not(a, b) | Instr::GetField(a, b) | Instr::SetField(a, b) | Instr::GetIndex(a, b)
        | Instr::SetIndex(a, b) | Instr::ArrayPush(a, b) | Instr::ArrayPushIntImm(a, b) | Instr::ArrayLength(a, b) | Instr::ArrayPop(a, b)
        | Instr::StringCountBytes(a, b) | Instr::FloatFromInt(a, b) | Instr::IntFromFloat(a, b) | Instr::StringFromInt(a, b)
        | Instr::StringFromFloat(a, b) => from_words(&i, a, b, 0),
        // three 16-bit operands: no padding
        other => other,
    }
}

pub(super) fn mk_shared(
    program: Vec<Instr>,
    int_constants: Vec<AbraInt>,
    float_constants: Vec<f64>,
) -> VmSharedReadonly {
    VmSharedReadonly {
        program,
        int_constants,
        float_constants,
        static_strings: vec![],
        filename_table: vec![(0, 0)],
        lineno_table: vec![(0, 0)],
        function_name_table: vec![(0, 0)],
        filename_arena: vec![String::new()],
        function_name_arena: vec![String::new()],
        heap_size: 0,
    }
}

pub(super) fn mk_thread(
    program: Vec<Instr>,
    int_constants: Vec<AbraInt>,
    float_constants: Vec<f64>,
) -> VmGreenThread {
    let shared = mk_shared(program, int_constants, float_constants);
    let (sender, receiver) = mpsc::channel();
    std::mem::forget(receiver);
    VmGreenThread::new(Arc::new(shared), sender)
}

// ---- operand modes ----
#[derive(Clone, Copy, PartialEq, Eq)]
pub(super) enum M {
    T, // Reg::Top
    O, // Reg::Offset(symbolic offset inside the frame)
}
pub(super) use M::{O, T};

// Frame layout used by the arm harnesses: two argument slots below the frame
// base and three locals above it; operands are pushed after the locals.
pub(super) const SB: usize = 2;
pub(super) const NLOC: usize = 3;
pub(super) const FRAME: usize = SB + NLOC;

// Register offsets are concrete per operand role (dest / reg1 / reg2): a symbolic
// offset leaves the Top flag of the encoded register symbolic for CBMC, which makes
// Vec::truncate/resize lengths symbolic (measured: out of memory).  The 15-bit
// offset decoding itself is covered for every offset by the c01_reg_* harnesses.
pub(super) const OFF_DEST: i16 = 2;
pub(super) const OFF_R1: i16 = -1;
pub(super) const OFF_R2: i16 = 1;
// The register encoding is the assembler's own (assembly::Reg::encode).
pub(super) fn enc(m: M, off: i16) -> u16 {
    match m {
        T => Reg::Top.encode(),
        O => Reg::Offset(off).encode(),
    }
}
pub(super) fn slot(off: i16) -> usize {
    (SB as isize + off as isize) as usize
}

pub(super) fn sym_val(tag: ValueTag) -> Value {
    match tag {
        ValueTag::Bool => {
            let b: bool = kani::any();
            Value::from(b)
        }
        _ => {
            let p: u64 = kani::any();
            Value(p, tag)
        }
    }
}

pub(super) fn push_frame(t: &mut VmGreenThread, tag: ValueTag) {
    for _ in 0..FRAME {
        let v = sym_val(tag);
        t.value_stack.push(v);
    }
    t.stack_base = SB;
}

// Model of the operand conventions: a Top operand is popped, an Offset operand
// is read in place; a Top destination is pushed, an Offset destination is
// overwritten in place.
pub(super) fn fetch(st: &mut Vec<Value>, m: M, off: i16) -> Value {
    match m {
        T => st.pop().unwrap(),
        O => st[slot(off)],
    }
}
pub(super) fn put(st: &mut Vec<Value>, m: M, off: i16, v: Value) {
    match m {
        T => st.push(v),
        O => st[slot(off)] = v,
    }
}

pub(super) fn same_stack(a: &Vec<Value>, b: &Vec<Value>) -> bool {
    if a.len() != b.len() {
        return false;
    }
    let mut i = 0;
    while i < a.len() {
        if a[i].0 != b[i].0 || a[i].1 != b[i].1 {
            return false;
        }
        i += 1;
    }
    true
}

// ASCII string of symbolic length <= 3 with symbolic bytes; returns the bytes too.
pub(super) fn mk_string(t: &mut VmGreenThread, bytes: [u8; 3], len: usize) -> Value {
    // one buffer of fixed capacity: only the length is symbolic, not the buffer identity
    let mut st = String::with_capacity(4);
    if len > 0 {
        st.push(bytes[0] as char);
    }
    if len > 1 {
        st.push(bytes[1] as char);
    }
    if len > 2 {
        st.push(bytes[2] as char);
    }
    Value::from(StringObject::new(st, t))
}
pub(super) fn sym_ascii3() -> [u8; 3] {
    let b: [u8; 3] = kani::any();
    kani::assume(b[0] < 128 && b[1] < 128 && b[2] < 128);
    b
}

macro_rules! vm_harness {
    ($(#[$attr:meta])* fn $name:ident() $body:block) => {
        #[kani::proof]
        #[kani::stub(VmGreenThread::fail, fail_stub)]
        #[kani::stub(VmGreenThread::pc_to_error_location, loc_stub)]
        #[kani::stub(VmGreenThread::make_stack_trace, trace_stub)]
        #[kani::stub(std::sync::mpsc::Sender::send, send_stub)]
        $(#[$attr])*
        fn $name() $body
    };
}
