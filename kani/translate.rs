// Included at the end of abra_core/src/translate_bytecode.rs under cfg(all(kani, abra_verif)).
mod verif {
    #![allow(unused, dead_code, clippy::all)]
    use super::*;

    // C32 (b): create_source_location_tables followed by the VM's lookup rule gives every
    // instruction its own (file, line, function) triple.  <= 4 lines (labels interleaved),
    // symbolic triples.
    fn lookup(table: &Vec<(BytecodeIndex, u32)>, pc: u32) -> u32 {
        // same rule as vm::pc_to_error_location (checked against the real one in c32_pc_to_error_location)
        let idx = match table.binary_search_by_key(&pc, |p| p.0) {
            Ok(i) | Err(i) => i,
        };
        let idx = if idx >= 1 { idx - 1 } else { idx };
        table[idx].1
    }

    #[kani::proof]
    #[kani::unwind(7)]
    fn c32_source_tables_roundtrip() {
        let mut st = TranslatorState::default();
        let trip: [(u16, u8, u8); 4] = kani::any();
        let label_at: usize = kani::any();
        kani::assume(label_at <= 4);
        let n: usize = kani::any();
        kani::assume(n >= 1 && n <= 4);
        let mut k = 0;
        while k < 4 {
            if k == label_at {
                st.lines.push(Line::Label(String::new()));
            }
            if k < n {
                st.lines.push(Line::Instr {
                    instr: Instr::Pop,
                    lineno: trip[k].0 as usize,
                    file_id: trip[k].1 as u32,
                    func_id: trip[k].2 as u32,
                });
            }
            k += 1;
        }
        let tr = std::mem::MaybeUninit::<Translator>::uninit();
        let tr_ref: &Translator = unsafe { &*tr.as_ptr() }; // `self` is not used by the function
        tr_ref.create_source_location_tables(&mut st);
        let mut i = 0;
        while i < 4 {
            if i < n {
                // instruction i fails => the VM looks up pc = i + 1
                let pc = (i + 1) as u32;
                assert!(lookup(&st.lineno_table, pc) == trip[i].0 as u32, "line of instruction i");
                assert!(lookup(&st.filename_table, pc) == trip[i].1 as u32, "file of instruction i");
                assert!(lookup(&st.function_name_table, pc) == trip[i].2 as u32, "function of instruction i");
            }
            i += 1;
        }
        kani::cover!(n == 4 && trip[0].0 != trip[1].0 && trip[1].0 == trip[2].0 && trip[2].0 != trip[3].0, "req: runs of equal and different lines");
        std::mem::forget(st);
    }

    include!(concat!(env!("ABRA_VERIF_HARNESS_DIR"), "/translate_playback.rs"));
}
