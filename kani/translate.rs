// Included at the end of abra_core/src/translate_bytecode.rs under cfg(all(kani, abra_verif)).
mod verif {
    #![allow(unused, dead_code, clippy::all)]
    use super::*;

    // C32 (b): create_source_location_tables followed by the VM's lookup rule gives every
    // instruction its own (file, line, function) triple.  <= 4 lines (labels interleaved),
    // symbolic triples.
    fn lookup(table: &Vec<(BytecodeIndex, u32)>, pc: u32) -> u32 {
        // the VM's rule (vm::pc_to_error_location, binary search; checked against this specification on symbolic tables in
        // c32_pc_to_error_location): the entry with the greatest start index below pc, the first entry if there is none
        let mut best = table[0].1;
        let mut k = 0;
        while k < table.len() {
            if (table[k].0 as u32) < pc {
                best = table[k].1;
            }
            k += 1;
        }
        best
    }

    // number of lines and label position are concrete per harness (a Vec<Line> of symbolic length does not finish under CBMC:
    // measured, solver gave up at 12 GB); the (line, file, function) triples are symbolic.
    macro_rules! tables_harness {
        ($name:ident, $n:expr, $label_at:expr, $which:expr) => {
            #[kani::proof]
            #[kani::unwind(7)]
            fn $name() {
                let mut st = TranslatorState::default();
                // one of the three tables is symbolic per harness (they are built by three copies of the same code; three
                // Vecs of symbolic length at once did not finish: measured), the other two components are constant
                let sym: [u16; 4] = kani::any();
                let mut trip: [(u16, u8, u8); 4] = [(7, 1, 2); 4];
                let mut q = 0;
                while q < 4 {
                    kani::assume(sym[q] < 250);
                    if $which == 0 { trip[q].0 = sym[q]; } else if $which == 1 { trip[q].1 = sym[q] as u8; } else { trip[q].2 = sym[q] as u8; }
                    q += 1;
                }
                let n: usize = $n;
                let label_at: usize = $label_at;
                // fixed capacities: no reallocation inside the function under analysis
                st.lines.reserve(8);
                st.lineno_table.reserve(8);
                st.filename_table.reserve(8);
                st.function_name_table.reserve(8);
                let mut k = 0;
                while k < 4 {
                    if k == label_at {
                        st.lines.push(Line::Label(String::new()));
                    }
                    if k < n {
                        st.lines.push(Line::Instr {
                            instr: Instr::Pop,
                            lineno: trip[k].0 as usize,
                            file_id: trip[k].1 as u32,
                            func_id: trip[k].2 as u32,
                        });
                    }
                    k += 1;
                }
                let tr = std::mem::MaybeUninit::<Translator>::uninit();
                let tr_ref: &Translator = unsafe { &*tr.as_ptr() }; // `self` is not used by the function
                tr_ref.create_source_location_tables(&mut st);
                let mut i = 0;
                while i < 4 {
                    if i < n {
                        // instruction i fails => the VM looks up pc = i + 1
                        let pc = (i + 1) as u32;
                        assert!(lookup(&st.lineno_table, pc) == trip[i].0 as u32, "line of instruction i");
                        assert!(lookup(&st.filename_table, pc) == trip[i].1 as u32, "file of instruction i");
                        assert!(lookup(&st.function_name_table, pc) == trip[i].2 as u32, "function of instruction i");
                    }
                    i += 1;
                }
                kani::cover!(n < 4 || (sym[0] != sym[1] && sym[1] == sym[2] && sym[2] != sym[3]), "req: runs of equal and different entries");
                std::mem::forget(st);
            }
        };
    }
    tables_harness!(c32_tables_line_4_nolabel, 4, 9, 0);
    tables_harness!(c32_tables_line_4_label2, 4, 2, 0);
    tables_harness!(c32_tables_file_4_label0, 4, 0, 1);
    tables_harness!(c32_tables_func_4_nolabel, 4, 9, 2);
    tables_harness!(c32_tables_line_1, 1, 1, 0);

    include!(concat!(env!("ABRA_VERIF_HARNESS_DIR"), "/translate_playback.rs"));
}
