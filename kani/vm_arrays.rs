// C26 (array arms) and the data-structure part of C01: one real step() on arrays,
// structs and variants with symbolic contents.

// Array of symbolic length <= 3 (capacity 4, so no reallocation happens while building)
// holding symbolic ints.  Returns (value, element payloads, length).
pub(super) fn sym_array(t: &mut VmGreenThread, maxlen: usize) -> (Value, [u64; 3], usize) {
    let len: usize = kani::any();
    kani::assume(len <= maxlen && len <= 3);
    let e: [u64; 3] = kani::any();
    let mut v: Vec<Value> = Vec::with_capacity(4);
    if len > 0 { v.push(Value(e[0], ValueTag::Int)); }
    if len > 1 { v.push(Value(e[1], ValueTag::Int)); }
    if len > 2 { v.push(Value(e[2], ValueTag::Int)); }
    (Value::from(ArrayObject::new(v, t)), e, len)
}
pub(super) fn fixed_array(t: &mut VmGreenThread, len: usize, cap: usize) -> (Value, [u64; 3]) {
    let e: [u64; 3] = kani::any();
    let mut v: Vec<Value> = Vec::with_capacity(cap);
    let mut k = 0;
    while k < len {
        v.push(Value(e[k], ValueTag::Int));
        k += 1;
    }
    (Value::from(ArrayObject::new(v, t)), e)
}
pub(super) fn arr_ref<'a>(v: Value) -> &'a ArrayObject {
    unsafe { &*(v.0 as *const ArrayObject) }
}

macro_rules! get_index_harness {
    ($name:ident, $m1:expr, $m2:expr) => {
        vm_harness! {
            #[kani::unwind(9)]
            fn $name() {
                let (o1, o2) = (OFF_R1, OFF_R2);
                let mut t = mk_thread(vec![norm(Instr::GetIndex(enc($m1, o1), enc($m2, o2))), Instr::Stop], vec![], vec![]);
                let (arr, e, len) = sym_array(&mut t, 3);
                let idx: i64 = kani::any();
                push_frame(&mut t, ValueTag::Int);
                if $m1 == O { t.value_stack[slot(o1)] = arr; }
                if $m2 == O { t.value_stack[slot(o2)] = Value::from(idx); }
                if $m1 == T { t.value_stack.push(arr); }
                if $m2 == T { t.value_stack.push(Value::from(idx)); }
                let mut model = t.value_stack.clone();
                let _ = fetch(&mut model, $m2, o2);
                let _ = fetch(&mut model, $m1, o1);
                let exp = if idx < 0 || idx >= len as i64 {
                    Exp::Err(EK_OOB)
                } else {
                    Exp::Val(Value(e[idx as usize], ValueTag::Int))
                };
                check_step(&mut t, model, T, 0, exp, true);
                assert!(arr_ref(arr).data.len() == len, "array unchanged by a read");
                std::mem::forget(t);
            }
        }
    };
}
get_index_harness!(c26_get_index_tt, T, T);
get_index_harness!(c26_get_index_to, T, O);
get_index_harness!(c26_get_index_oo, O, O);

macro_rules! set_index_harness {
    ($name:ident, $m1:expr, $m2:expr) => {
        vm_harness! {
            #[kani::unwind(9)]
            fn $name() {
                let (o1, o2) = (OFF_R1, OFF_R2);
                let mut t = mk_thread(vec![norm(Instr::SetIndex(enc($m1, o1), enc($m2, o2))), Instr::Stop], vec![], vec![]);
                let (arr, e, len) = sym_array(&mut t, 3);
                let idx: i64 = kani::any();
                let rv = sym_val(ValueTag::Int);
                push_frame(&mut t, ValueTag::Int);
                // operand order on the stack: array, index, value
                if $m1 == O { t.value_stack[slot(o1)] = Value::from(idx); }
                if $m2 == O { t.value_stack[slot(o2)] = rv; }
                t.value_stack.push(arr);
                if $m1 == T { t.value_stack.push(Value::from(idx)); }
                if $m2 == T { t.value_stack.push(rv); }
                let mut model = t.value_stack.clone();
                let _ = fetch(&mut model, $m2, o2);
                let _ = fetch(&mut model, $m1, o1);
                model.pop();
                t.pc.0 = 0;
                let cont = t.step();
                if idx < 0 || idx >= len as i64 {
                    assert!(!cont && err_code(&t) == EK_OOB, "out-of-range store is an ArrayOutOfBounds error");
                    kani::cover!(true, "req: error outcome reachable");
                    kani::cover!(idx == len as i64, "req: one past the end");
                } else {
                    assert!(cont && t.error.is_none() && t.pc.0 == 1);
                    assert!(same_stack(&t.value_stack, &model), "three operands consumed, nothing pushed");
                    let d = &arr_ref(arr).data;
                    assert!(d.len() == len, "length unchanged");
                    let mut k = 0;
                    while k < 3 {
                        if k < len {
                            let want = if k as i64 == idx { rv } else { Value(e[k], ValueTag::Int) };
                            assert!(d[k].0 == want.0 && d[k].1 == want.1, "exactly the addressed element changes");
                        }
                        k += 1;
                    }
                    kani::cover!(true, "req: success outcome reachable");
                }
                std::mem::forget(t);
            }
        }
    };
}
set_index_harness!(c26_set_index_tt, T, T);
set_index_harness!(c26_set_index_to, T, O);
set_index_harness!(c26_set_index_oo, O, O);

macro_rules! array_len_harness {
    ($name:ident, $len:expr, $dm:expr, $m1:expr) => {
        vm_harness! {
            #[kani::unwind(9)]
            fn $name() {
                let (od, o1) = (OFF_DEST, OFF_R1);
                let mut t = mk_thread(vec![norm(Instr::ArrayLength(enc($dm, od), enc($m1, o1))), Instr::Stop], vec![], vec![]);
                let len: usize = $len;
                let (arr, _e) = fixed_array(&mut t, len, 4);
                push_frame(&mut t, ValueTag::Int);
                if $m1 == O { t.value_stack[slot(o1)] = arr; } else { t.value_stack.push(arr); }
                let mut model = t.value_stack.clone();
                let _ = fetch(&mut model, $m1, o1);
                check_step(&mut t, model, $dm, od, Exp::Val(Value::from(len as i64)), false);
                std::mem::forget(t);
            }
        }
    };
}
array_len_harness!(c26_len0_tt, 0, T, T);
array_len_harness!(c26_len3_tt, 3, T, T);
array_len_harness!(c26_len2_oo, 2, O, O);

// pop: concrete length per harness (0, 1, 3), symbolic contents
macro_rules! array_pop_harness {
    ($name:ident, $len:expr, $dm:expr, $m1:expr) => { array_pop_harness!($name, $len, $dm, $m1, 4); };
    ($name:ident, $len:expr, $dm:expr, $m1:expr, $cap:expr) => {
        vm_harness! {
            #[kani::unwind(9)]
            fn $name() {
                let (od, o1) = (OFF_DEST, OFF_R1);
                let mut t = mk_thread(vec![norm(Instr::ArrayPop(enc($dm, od), enc($m1, o1))), Instr::Stop], vec![], vec![]);
                let (arr, e) = fixed_array(&mut t, $len, $cap);
                push_frame(&mut t, ValueTag::Int);
                if $m1 == O { t.value_stack[slot(o1)] = arr; } else { t.value_stack.push(arr); }
                let mut model = t.value_stack.clone();
                let _ = fetch(&mut model, $m1, o1);
                let cap_before = arr_ref(arr).data.capacity();
                let heap_before = t.heap_size;
                if $len == 0 {
                    t.pc.0 = 0;
                    let cont = t.step();
                    assert!(!cont && err_code(&t) == EK_OOB, "popping an empty array is an ArrayOutOfBounds runtime error");
                    kani::cover!(true, "reqr: error outcome reachable");
                } else {
                    check_step(&mut t, model, $dm, od, Exp::Val(Value(e[($len as usize).saturating_sub(1)], ValueTag::Int)), false);
                }
                kani::cover!(true, "req: end of harness reachable");
                if $len > 0 {
                    let d = &arr_ref(arr).data;
                    assert!(d.len() == $len - 1, "array shrank by one");
                    let mut k = 0;
                    while k + 1 < $len {
                        assert!(d[k].0 == e[k] && d[k].1 == ValueTag::Int, "remaining elements unchanged");
                        k += 1;
                    }
                    // C07 accounting: heap_size follows the buffer's capacity in bytes, also when a pop gives memory back
                    assert!(d.capacity() <= cap_before, "a pop never grows the buffer");
                    assert!(t.heap_size + (cap_before - d.capacity()) * size_of::<Value>() == heap_before, "heap accounting follows the capacity change");
                }
                std::mem::forget(t);
            }
        }
    };
}
array_pop_harness!(c26_pop_len0_tt, 0, T, T);
array_pop_harness!(c26_pop_len1_tt, 1, T, T);
array_pop_harness!(c26_pop_len3_oo, 3, O, O);
array_pop_harness!(c26_pop_len0_oo, 0, O, O);
// large, mostly empty buffers (a drained worklist): the accounting obligation above must also hold if the VM returns memory here
array_pop_harness!(c26_pop_len2_cap64_tt, 2, T, T, 64);
array_pop_harness!(c26_pop_len1_cap256_tt, 1, T, T, 256);

// push: concrete length/capacity per harness (growth and no-growth), symbolic contents
macro_rules! array_push_harness {
    ($name:ident, $len:expr, $cap:expr, $m1:expr, $m2:expr) => {
        vm_harness! {
            #[kani::unwind(9)]
            fn $name() {
                let (o1, o2) = (OFF_R1, OFF_R2);
                let mut t = mk_thread(vec![norm(Instr::ArrayPush(enc($m1, o1), enc($m2, o2))), Instr::Stop], vec![], vec![]);
                let (arr, e) = fixed_array(&mut t, $len, $cap);
                let rv = sym_val(ValueTag::Int);
                push_frame(&mut t, ValueTag::Int);
                if $m1 == O { t.value_stack[slot(o1)] = arr; }
                if $m2 == O { t.value_stack[slot(o2)] = rv; }
                if $m1 == T { t.value_stack.push(arr); }
                if $m2 == T { t.value_stack.push(rv); }
                let mut model = t.value_stack.clone();
                let _ = fetch(&mut model, $m2, o2);
                let _ = fetch(&mut model, $m1, o1);
                let cap_before = arr_ref(arr).data.capacity();
                let heap_before = t.heap_size;
                t.pc.0 = 0;
                let cont = t.step();
                assert!(cont && t.error.is_none() && t.pc.0 == 1);
                assert!(same_stack(&t.value_stack, &model), "operands consumed, nothing pushed");
                let d = &arr_ref(arr).data;
                assert!(d.len() == $len + 1, "array grew by one");
                assert!(d[$len].0 == rv.0 && d[$len].1 == rv.1, "pushed value is the last element");
                let mut k = 0;
                while k < $len {
                    assert!(d[k].0 == e[k] && d[k].1 == ValueTag::Int, "existing elements unchanged");
                    k += 1;
                }
                // C07 accounting: heap_size follows the capacity change
                assert!(t.heap_size == heap_before + (d.capacity() - cap_before) * size_of::<Value>(), "heap accounting follows capacity growth");
                kani::cover!(d.capacity() > cap_before, "info: push reallocated");
                kani::cover!(true, "req: success outcome reachable");
                std::mem::forget(t);
            }
        }
    };
}
array_push_harness!(c26_push_len0_tt, 0, 0, T, T);
array_push_harness!(c26_push_len2_cap2_tt, 2, 2, T, T);
array_push_harness!(c26_push_len1_cap4_to, 1, 4, T, O);
array_push_harness!(c26_push_len1_cap4_oo, 1, 4, O, O);

vm_harness! {
    #[kani::unwind(9)]
    fn c26_push_int_imm() {
        let c: [i64; 3] = kani::any();
        let mut t = mk_thread(vec![norm(Instr::ArrayPushIntImm(enc(T, 0), 2)), Instr::Stop], vec![c[0], c[1], c[2]], vec![]);
        let (arr, e) = fixed_array(&mut t, 1, 4);
        push_frame(&mut t, ValueTag::Int);
        t.value_stack.push(arr);
        let mut model = t.value_stack.clone();
        model.pop();
        t.pc.0 = 0;
        let cont = t.step();
        assert!(cont && t.error.is_none() && t.pc.0 == 1);
        assert!(same_stack(&t.value_stack, &model));
        let d = &arr_ref(arr).data;
        assert!(d.len() == 2 && d[0].0 == e[0] && d[1].0 == c[2] as u64 && d[1].1 == ValueTag::Int, "constant appended");
        kani::cover!(true, "req: success outcome reachable");
        std::mem::forget(t);
    }
}

// construct / deconstruct arrays and structs: n concrete (0..3), contents symbolic
macro_rules! construct_harness {
    ($name:ident, $variant:ident, $n:expr, $is_array:expr) => {
        vm_harness! {
            #[kani::unwind(9)]
            fn $name() {
                let mut t = mk_thread(vec![norm(Instr::$variant($n)), Instr::Stop], vec![], vec![]);
                push_frame(&mut t, ValueTag::Int);
                let e: [u64; 3] = kani::any();
                let mut k = 0;
                while k < $n {
                    t.value_stack.push(Value(e[k as usize], ValueTag::Int));
                    k += 1;
                }
                let heap_before = t.heap_list.len();
                t.pc.0 = 0;
                let cont = t.step();
                assert!(cont && t.error.is_none() && t.pc.0 == 1);
                assert!(t.value_stack.len() == FRAME + 1, "n operands replaced by one object");
                assert!(t.heap_list.len() == heap_before + 1, "one allocation registered with the collector");
                let r = t.value_stack[FRAME];
                let fields: &[Value] = if $is_array {
                    assert!(r.1 == ValueTag::Array);
                    &arr_ref(r).data
                } else {
                    assert!(r.1 == ValueTag::Struct);
                    unsafe { (&*(r.0 as *const StructObject)).get_fields() }
                };
                assert!(fields.len() == $n as usize, "arity");
                let mut k = 0;
                while k < $n as usize {
                    assert!(fields[k].0 == e[k] && fields[k].1 == ValueTag::Int, "fields in push order");
                    k += 1;
                }
                kani::cover!(true, "req: success outcome reachable");
                std::mem::forget(t);
            }
        }
    };
}
construct_harness!(c26_construct_array_0, ConstructArray, 0u16, true);
construct_harness!(c26_construct_array_3, ConstructArray, 3u16, true);
construct_harness!(c01_construct_struct_0, ConstructStruct, 0u16, false);
construct_harness!(c01_construct_struct_3, ConstructStruct, 3u16, false);

vm_harness! {
    #[kani::unwind(9)]
    fn c01_make_closure_arity() {
        // MakeClosure(n) builds a struct of n + 1 fields (code address + n captures)
        let mut t = mk_thread(vec![norm(Instr::MakeClosure(2)), Instr::Stop], vec![], vec![]);
        push_frame(&mut t, ValueTag::Int);
        let e: [u64; 3] = kani::any();
        t.value_stack.push(Value(e[0], ValueTag::Int));
        t.value_stack.push(Value(e[1], ValueTag::Int));
        t.value_stack.push(Value(e[2] as u32 as u64, ValueTag::Addr));
        t.pc.0 = 0;
        let cont = t.step();
        assert!(cont && t.value_stack.len() == FRAME + 1);
        let r = t.value_stack[FRAME];
        assert!(r.1 == ValueTag::Struct);
        let f = unsafe { (&*(r.0 as *const StructObject)).get_fields() };
        assert!(f.len() == 3 && f[0].0 == e[0] && f[1].0 == e[1] && f[2].1 == ValueTag::Addr);
        kani::cover!(true, "req: success outcome reachable");
        std::mem::forget(t);
    }
}

macro_rules! deconstruct_harness {
    ($name:ident, $variant:ident, $n:expr, $is_array:expr) => {
        vm_harness! {
            #[kani::unwind(9)]
            fn $name() {
                let mut t = mk_thread(vec![norm(Instr::$variant), Instr::Stop], vec![], vec![]);
                let e: [u64; 3] = kani::any();
                let mut v: Vec<Value> = Vec::with_capacity(4);
                let mut k = 0;
                while k < $n {
                    v.push(Value(e[k], ValueTag::Int));
                    k += 1;
                }
                let obj: Value = if $is_array { Value::from(ArrayObject::new(v, &mut t)) } else { Value::from(StructObject::new(v, &mut t)) };
                push_frame(&mut t, ValueTag::Int);
                t.value_stack.push(obj);
                t.pc.0 = 0;
                let cont = t.step();
                assert!(cont && t.error.is_none() && t.pc.0 == 1);
                assert!(t.value_stack.len() == FRAME + $n, "object replaced by its n components");
                // components are pushed in reverse so that the first field ends on top
                let mut k = 0;
                while k < $n {
                    let got = t.value_stack[FRAME + $n - 1 - k];
                    assert!(got.0 == e[k] && got.1 == ValueTag::Int, "first component on top of the stack");
                    k += 1;
                }
                kani::cover!(true, "req: success outcome reachable");
                std::mem::forget(t);
            }
        }
    };
}
deconstruct_harness!(c26_deconstruct_array_2, DeconstructArray, 2usize, true);
deconstruct_harness!(c26_deconstruct_array_0, DeconstructArray, 0usize, true);
deconstruct_harness!(c01_deconstruct_struct_3, DeconstructStruct, 3usize, false);

// GetField / SetField on a 3-field struct, concrete field index per harness
macro_rules! field_harness {
    ($gname:ident, $sname:ident, $idx:expr, $m:expr) => {
        vm_harness! {
            #[kani::unwind(9)]
            fn $gname() {
                let o = OFF_R1;
                let mut t = mk_thread(vec![norm(Instr::GetField($idx, enc($m, o))), Instr::Stop], vec![], vec![]);
                let e: [u64; 3] = kani::any();
                let s = StructObject::new(vec![Value(e[0], ValueTag::Int), Value(e[1], ValueTag::Float), Value(e[2], ValueTag::Int)], &mut t);
                push_frame(&mut t, ValueTag::Int);
                if $m == O { t.value_stack[slot(o)] = Value::from(s); } else { t.value_stack.push(Value::from(s)); }
                let mut model = t.value_stack.clone();
                let _ = fetch(&mut model, $m, o);
                let tag = if $idx == 1 { ValueTag::Float } else { ValueTag::Int };
                check_step(&mut t, model, T, 0, Exp::Val(Value(e[$idx as usize], tag)), false);
                std::mem::forget(t);
            }
        }
        vm_harness! {
            #[kani::unwind(9)]
            fn $sname() {
                let o = OFF_R1;
                let mut t = mk_thread(vec![norm(Instr::SetField($idx, enc($m, o))), Instr::Stop], vec![], vec![]);
                let e: [u64; 3] = kani::any();
                let s = StructObject::new(vec![Value(e[0], ValueTag::Int), Value(e[1], ValueTag::Int), Value(e[2], ValueTag::Int)], &mut t);
                let rv = sym_val(ValueTag::Int);
                push_frame(&mut t, ValueTag::Int);
                // stack order: value, then struct
                t.value_stack.push(rv);
                if $m == O { t.value_stack[slot(o)] = Value::from(s); } else { t.value_stack.push(Value::from(s)); }
                let mut model = t.value_stack.clone();
                let _ = fetch(&mut model, $m, o);
                model.pop();
                t.pc.0 = 0;
                let cont = t.step();
                assert!(cont && t.error.is_none() && t.pc.0 == 1);
                assert!(same_stack(&t.value_stack, &model), "struct and value consumed");
                let f = unsafe { (&*s).get_fields() };
                let mut k = 0;
                while k < 3 {
                    let want = if k == $idx as usize { rv.0 } else { e[k] };
                    assert!(f[k].0 == want && f[k].1 == ValueTag::Int, "exactly the addressed field changes");
                    k += 1;
                }
                kani::cover!(true, "req: success outcome reachable");
                std::mem::forget(t);
            }
        }
    };
}
field_harness!(c01_get_field_0_t, c01_set_field_0_t, 0u16, T);
field_harness!(c01_get_field_2_o, c01_set_field_2_o, 2u16, O);
field_harness!(c01_get_field_1_t, c01_set_field_1_t, 1u16, T);

// variants: symbolic tag and payload
vm_harness! {
    #[kani::unwind(9)]
    fn c01_variant_roundtrip() {
        let tag: u16 = 7;
        let mut t = mk_thread(vec![norm(Instr::ConstructVariant { tag }), norm(Instr::DeconstructVariant), Instr::Stop], vec![], vec![]);
        push_frame(&mut t, ValueTag::Int);
        let payload = sym_val(ValueTag::Int);
        t.value_stack.push(payload);
        t.pc.0 = 0;
        assert!(t.step());
        assert!(t.value_stack.len() == FRAME + 1 && t.value_stack[FRAME].1 == ValueTag::Variant && t.heap_list.len() == 1);
        let v = unsafe { &*(t.value_stack[FRAME].0 as *const EnumObject) };
        assert!(v.tag == tag && v.val.0 == payload.0 && v.val.1 == payload.1, "variant holds tag and payload");
        t.pc.0 = 1;
        assert!(t.step());
        // DeconstructVariant leaves payload below, tag (as int) on top
        assert!(t.value_stack.len() == FRAME + 2);
        assert!(t.value_stack[FRAME].0 == payload.0 && t.value_stack[FRAME].1 == payload.1, "payload below the tag");
        assert!(t.value_stack[FRAME + 1].1 == ValueTag::Int && t.value_stack[FRAME + 1].0 == tag as u64, "tag on top");
        kani::cover!(true, "req: success outcome reachable");
        std::mem::forget(t);
    }
}
vm_harness! {
    #[kani::unwind(9)]
    fn c01_deconstruct_variant_symbolic_tag() {
        let mut t = mk_thread(vec![norm(Instr::DeconstructVariant), Instr::Stop], vec![], vec![]);
        let tag: u16 = kani::any();
        let payload = sym_val(ValueTag::Float);
        let v = EnumObject::new(tag, payload, &mut t);
        push_frame(&mut t, ValueTag::Int);
        t.value_stack.push(Value::from(v));
        t.pc.0 = 0;
        assert!(t.step());
        assert!(t.value_stack.len() == FRAME + 2);
        assert!(t.value_stack[FRAME].0 == payload.0 && t.value_stack[FRAME].1 == ValueTag::Float);
        assert!(t.value_stack[FRAME + 1].1 == ValueTag::Int && t.value_stack[FRAME + 1].0 as i64 == tag as i64, "tag widened without sign change");
        kani::cover!(tag >= 0x8000, "req: tag with the high bit set");
        std::mem::forget(t);
    }
}

// ---- experiments (x_ prefix: not part of any check) ----
vm_harness! {
    #[kani::unwind(9)]
    fn x_len3_nomodel() {
        let mut t = mk_thread(vec![Instr::ArrayLength(enc(T, 0), enc(T, 0)), Instr::Stop], vec![], vec![]);
        let (arr, _e) = fixed_array(&mut t, 3, 4);
        push_frame(&mut t, ValueTag::Int);
        t.value_stack.push(arr);
        t.pc.0 = 0;
        let cont = t.step();
        assert!(cont && t.value_stack.len() == FRAME + 1 && t.value_stack[FRAME].0 == 3);
        std::mem::forget(t);
    }
}
vm_harness! {
    #[kani::unwind(9)]
    fn x_len3_symarr() {
        let mut t = mk_thread(vec![Instr::ArrayLength(enc(T, 0), enc(T, 0)), Instr::Stop], vec![], vec![]);
        let (arr, _e, len) = sym_array(&mut t, 3);
        push_frame(&mut t, ValueTag::Int);
        t.value_stack.push(arr);
        t.pc.0 = 0;
        let cont = t.step();
        assert!(cont && t.value_stack.len() == FRAME + 1 && t.value_stack[FRAME].0 == len as u64);
        std::mem::forget(t);
    }
}
vm_harness! {
    #[kani::unwind(9)]
    fn x_len3_noframe() {
        let mut t = mk_thread(vec![Instr::ArrayLength(enc(T, 0), enc(T, 0)), Instr::Stop], vec![], vec![]);
        let (arr, _e) = fixed_array(&mut t, 3, 4);
        t.value_stack.push(arr);
        t.pc.0 = 0;
        let cont = t.step();
        assert!(cont && t.value_stack.len() == 1 && t.value_stack[0].0 == 3);
        std::mem::forget(t);
    }
}
vm_harness! {
    #[kani::unwind(9)]
    fn x_len3_vecmacro() {
        let mut t = mk_thread(vec![Instr::ArrayLength(enc(T, 0), enc(T, 0)), Instr::Stop], vec![], vec![]);
        let e: [u64; 3] = kani::any();
        let arr = Value::from(ArrayObject::new(vec![Value(e[0], ValueTag::Int), Value(e[1], ValueTag::Int), Value(e[2], ValueTag::Int)], &mut t));
        push_frame(&mut t, ValueTag::Int);
        t.value_stack.push(arr);
        t.pc.0 = 0;
        let cont = t.step();
        assert!(cont && t.value_stack.len() == FRAME + 1 && t.value_stack[FRAME].0 == 3);
        std::mem::forget(t);
    }
}
vm_harness! {
    #[kani::unwind(9)]
    fn x_len3_destoff() {
        let mut t = mk_thread(vec![Instr::ArrayLength(enc(O, 1), enc(T, 0)), Instr::Stop], vec![], vec![]);
        let (arr, _e) = fixed_array(&mut t, 3, 4);
        push_frame(&mut t, ValueTag::Int);
        t.value_stack.push(arr);
        t.pc.0 = 0;
        let cont = t.step();
        assert!(cont && t.value_stack.len() == FRAME && t.value_stack[slot(1)].0 == 3);
        std::mem::forget(t);
    }
}
vm_harness! {
    #[kani::unwind(9)]
    fn x_len3_bigstack() {
        // the operand stack has spare capacity, so pushing the result cannot reallocate
        let mut t = mk_thread(vec![Instr::ArrayLength(enc(T, 0), enc(T, 0)), Instr::Stop], vec![], vec![]);
        t.value_stack = Vec::with_capacity(16);
        let (arr, _e) = fixed_array(&mut t, 3, 4);
        push_frame(&mut t, ValueTag::Int);
        t.value_stack.push(arr);
        t.pc.0 = 0;
        let cont = t.step();
        assert!(cont && t.value_stack.len() == FRAME + 1 && t.value_stack[FRAME].0 == 3);
        std::mem::forget(t);
    }
}
