// C05 (K part): translation validation of the peephole optimizer, one rewrite window at a time.
// The REAL optimize() is run on a window of assembly lines with symbolic constants; both the
// original and the rewritten window are lowered to VM instructions (register encoding by the
// real Reg::encode; constants go into a table) and executed by the REAL step() from the same
// symbolic frame; stacks, error kind and the pc reached relative to the window end must agree.
use crate::assembly::{Instr as AInstr, Line};
use crate::optimize_bytecode::optimize;

pub(super) fn line(i: AInstr) -> Line {
    Line::Instr { instr: i, lineno: 1, file_id: 0, func_id: 0 }
}

pub(super) struct Lowered {
    prog: Vec<Instr>,
    ints: Vec<AbraInt>,
}

// Lowers the instruction kinds used by the windows below.  A jump to label "L" lands one past
// the fall-through slot that follows the window.
// one line -> one VM instruction; constants are appended to `ints`
pub(super) fn lower_one(lines: &Vec<Line>, k: usize, ints: &mut [AbraInt; 4], nints: &mut usize) -> Instr {
    let n = lines.len();
    if k >= n {
        return Instr::Stop; // fall-through slot (pc == n) and jump target (pc == n + 1)
    }
    let target = ProgramCounter(n as u32 + 1);
    let Line::Instr { instr, .. } = &lines[k] else { panic!("label inside a window") };
    let mut konst = |c: AbraInt| -> u16 {
        ints[*nints] = c;
        *nints += 1;
        (*nints - 1) as u16
    };
    let vi = match instr {
        AInstr::Pop => Instr::Pop,
        AInstr::Duplicate => Instr::Duplicate,
        AInstr::LoadOffset(o) => Instr::LoadOffset(*o),
        AInstr::StoreOffset(o) => Instr::StoreOffset(*o),
        AInstr::StoreOffsetImm(o, c) => Instr::StoreOffsetImm(*o, konst(*c)),
        AInstr::PushNil(c) => Instr::PushNil(*c),
        AInstr::PushBool(b) => Instr::PushBool(*b),
        AInstr::PushInt(c) => Instr::PushInt(konst(*c) as u32),
        AInstr::Not(d, r) => Instr::Not(d.encode(), r.encode()),
        AInstr::Jump(_) => Instr::Jump(target),
        AInstr::JumpIf(_) => Instr::JumpIf(target),
        AInstr::JumpIfFalse(_) => Instr::JumpIfFalse(target),
        AInstr::AddInt(d, a, b) => Instr::AddInt(d.encode(), a.encode(), b.encode()),
        AInstr::AddIntImm(d, a, c) => Instr::AddIntImm(d.encode(), a.encode(), konst(*c)),
        AInstr::SubInt(d, a, b) => Instr::SubtractInt(d.encode(), a.encode(), b.encode()),
        AInstr::SubIntImm(d, a, c) => Instr::SubIntImm(d.encode(), a.encode(), konst(*c)),
        AInstr::MulInt(d, a, b) => Instr::MulInt(d.encode(), a.encode(), b.encode()),
        AInstr::MulIntImm(d, a, c) => Instr::MulIntImm(d.encode(), a.encode(), konst(*c)),
        AInstr::DivInt(d, a, b) => Instr::DivideInt(d.encode(), a.encode(), b.encode()),
        AInstr::DivIntImm(d, a, c) => Instr::DivideIntImm(d.encode(), a.encode(), konst(*c)),
        AInstr::Modulo(d, a, b) => Instr::Modulo(d.encode(), a.encode(), b.encode()),
        AInstr::ModuloImm(d, a, c) => Instr::ModuloImm(d.encode(), a.encode(), konst(*c)),
        AInstr::LessThanInt(d, a, b) => Instr::LessThanInt(d.encode(), a.encode(), b.encode()),
        AInstr::LessThanIntImm(d, a, c) => Instr::LessThanIntImm(d.encode(), a.encode(), konst(*c)),
        AInstr::GreaterThanOrEqualInt(d, a, b) => Instr::GreaterThanOrEqualInt(d.encode(), a.encode(), b.encode()),
        AInstr::GreaterThanOrEqualIntImm(d, a, c) => Instr::GreaterThanOrEqualIntImm(d.encode(), a.encode(), konst(*c)),
        AInstr::EqualInt(d, a, b) => Instr::EqualInt(d.encode(), a.encode(), b.encode()),
        AInstr::EqualIntImm(d, a, c) => Instr::EqualIntImm(d.encode(), a.encode(), konst(*c)),
        AInstr::ArrayPush(a, b) => Instr::ArrayPush(a.encode(), b.encode()),
        AInstr::ArrayPushIntImm(a, c) => Instr::ArrayPushIntImm(a.encode(), konst(*c)),
        AInstr::ArrayLength(d, a) => Instr::ArrayLength(d.encode(), a.encode()),
        AInstr::GetIndex(a, b) => Instr::GetIndex(a.encode(), b.encode()),
        AInstr::SetIndex(a, b) => Instr::SetIndex(a.encode(), b.encode()),
        AInstr::GetField(i, r) => Instr::GetField(*i, r.encode()),
        AInstr::SetField(i, r) => Instr::SetField(*i, r.encode()),
        _ => panic!("instruction kind not supported by the window lowering"),
    };
    norm(vi)
}

// Lowers a window of <= 4 lines.  A jump to label "L" lands one past the fall-through slot that follows the window.
// The program is a vec! literal (no loop, no push): CBMC must see each instruction as a constant.
pub(super) fn lower(lines: &Vec<Line>) -> Lowered {
    assert!(lines.len() <= 4);
    let mut ints: [AbraInt; 4] = [0; 4];
    let mut nints = 0usize;
    let i0 = lower_one(lines, 0, &mut ints, &mut nints);
    let i1 = lower_one(lines, 1, &mut ints, &mut nints);
    let i2 = lower_one(lines, 2, &mut ints, &mut nints);
    let i3 = lower_one(lines, 3, &mut ints, &mut nints);
    Lowered { prog: vec![i0, i1, i2, i3, Instr::Stop, Instr::Stop], ints: vec![ints[0], ints[1], ints[2], ints[3]] }
}

pub(super) struct Outcome {
    stack: Vec<Value>,
    err: u8,
    rel_pc: u32, // pc - window length after the last executed step (0 fall-through, 1 jumped)
    arr: Vec<Value>,
}

// frame: 2 args + 3 locals of `tag`, local 0 optionally an array / struct (shared object given by the caller)
pub(super) fn run_window(l: Lowered, frame: &Vec<Value>, n: usize, arr: Option<Value>) -> Outcome {
    let mut t = mk_thread(l.prog, l.ints, vec![]);
    let mut k = 0;
    while k < frame.len() {
        t.value_stack.push(frame[k]);
        k += 1;
    }
    t.stack_base = SB;
    let mut i = 0;
    let mut cont = true;
    while i < n && cont {
        t.pc.0 = i as u32; // windows are straight-line: the only jump is the last instruction
        cont = t.step();
        i += 1;
    }
    let rel = if cont { t.pc.0 - n as u32 } else { 9 };
    let arr_now = match arr {
        Some(a) => arr_ref(a).data.clone(),
        None => Vec::new(),
    };
    let out = Outcome { stack: t.value_stack.clone(), err: err_code(&t), rel_pc: rel, arr: arr_now };
    std::mem::forget(t);
    out
}

pub(super) fn same_outcome(a: &Outcome, b: &Outcome) -> bool {
    if a.err != b.err { return false; }
    if a.err != EK_NONE { return true; } // both stop with the same runtime error kind
    a.rel_pc == b.rel_pc && same_stack(&a.stack, &b.stack) && same_stack(&a.arr, &b.arr)
}

// tag: frame slot tag; extra: operands pushed above the frame (symbolic, same tag) ; `shrinks`: the
// rule is expected to fire (the rewritten window is shorter) -- otherwise coverage is lost, not soundness.
macro_rules! tv_harness {
    ($name:ident, $tag:expr, $extra:expr, $use_arr:expr, |$c:ident| $before:expr) => {
        vm_harness! {
            #[kani::unwind(9)]
            fn $name() {
                let $c: [i64; 2] = kani::any();
                let before: Vec<Line> = $before;
                let n_before = before.len();
                let after = optimize(before.clone());
                let n_after = after.len();
                assert!(n_after <= n_before, "the optimizer never grows a window");
                kani::cover!(n_after < n_before, "req: the rewrite rule fired");
                // common symbolic frame
                let mut frame: Vec<Value> = Vec::with_capacity(8);
                let mut k = 0;
                while k < FRAME + $extra {
                    frame.push(sym_val($tag));
                    k += 1;
                }
                // two identical arrays (one per execution) when the window works on an array in local 0
                let e: [u64; 2] = kani::any();
                let mut scratch = mk_thread(vec![Instr::Stop], vec![], vec![]);
                let (a1, a2) = if $use_arr {
                    let mut d1 = Vec::with_capacity(4); d1.push(Value(e[0], ValueTag::Int)); d1.push(Value(e[1], ValueTag::Int));
                    let mut d2 = Vec::with_capacity(4); d2.push(Value(e[0], ValueTag::Int)); d2.push(Value(e[1], ValueTag::Int));
                    (Some(Value::from(ArrayObject::new(d1, &mut scratch))), Some(Value::from(ArrayObject::new(d2, &mut scratch))))
                } else { (None, None) };
                let mut f1 = frame.clone();
                let mut f2 = frame.clone();
                if let (Some(x), Some(y)) = (a1, a2) { f1[slot(0)] = x; f2[slot(0)] = y; }
                let o1 = run_window(lower(&before), &f1, n_before, a1);
                let o2 = run_window(lower(&after), &f2, n_after, a2);
                // array identity differs between the two runs by construction: compare through contents
                let mut s1 = o1; let mut s2 = o2;
                if let (Some(x), Some(y)) = (a1, a2) {
                    let mut k = 0;
                    while k < s1.stack.len() { if s1.stack[k].0 == x.0 { s1.stack[k] = Value(0, ValueTag::Array); } k += 1; }
                    let mut k = 0;
                    while k < s2.stack.len() { if s2.stack[k].0 == y.0 { s2.stack[k] = Value(0, ValueTag::Array); } k += 1; }
                }
                assert!(same_outcome(&s1, &s2), "the rewritten window behaves exactly like the original");
                kani::cover!(s1.err == EK_NONE, "req: success outcome reachable");
                std::mem::forget(scratch);
            }
        }
    };
}

use crate::assembly::Reg as R;
pub(super) fn lbl() -> String { String::new() }

// push/pop pairs
tv_harness!(c05_tv_pushint_pop, ValueTag::Int, 0, false, |c| vec![line(AInstr::PushInt(c[0])), line(AInstr::Pop)]);
tv_harness!(c05_tv_pushnil2_pop, ValueTag::Int, 0, false, |c| vec![line(AInstr::PushNil(2)), line(AInstr::Pop)]);
tv_harness!(c05_tv_dup_pop, ValueTag::Int, 0, false, |c| vec![line(AInstr::Duplicate), line(AInstr::Pop)]);
// boolean rules
tv_harness!(c05_tv_not_jumpif, ValueTag::Bool, 1, false, |c| vec![line(AInstr::Not(R::Top, R::Top)), line(AInstr::JumpIf(lbl()))]);
tv_harness!(c05_tv_true_jumpif, ValueTag::Bool, 0, false, |c| vec![line(AInstr::PushBool(true)), line(AInstr::JumpIf(lbl()))]);
tv_harness!(c05_tv_true_jumpiffalse, ValueTag::Bool, 0, false, |c| vec![line(AInstr::PushBool(true)), line(AInstr::JumpIfFalse(lbl()))]);
tv_harness!(c05_tv_false_jumpif, ValueTag::Bool, 0, false, |c| vec![line(AInstr::PushBool(false)), line(AInstr::JumpIf(lbl()))]);
tv_harness!(c05_tv_true_not, ValueTag::Bool, 0, false, |c| vec![line(AInstr::PushBool(true)), line(AInstr::Not(R::Top, R::Top))]);
tv_harness!(c05_tv_false_not, ValueTag::Bool, 0, false, |c| vec![line(AInstr::PushBool(false)), line(AInstr::Not(R::Top, R::Top))]);
// store immediate
tv_harness!(c05_tv_pushint_store, ValueTag::Int, 0, false, |c| vec![line(AInstr::PushInt(c[0])), line(AInstr::StoreOffset(1))]);
// LOAD + op second arg
tv_harness!(c05_tv_load_sub_second, ValueTag::Int, 1, false, |c| vec![line(AInstr::LoadOffset(1)), line(AInstr::SubInt(R::Top, R::Top, R::Top))]);
tv_harness!(c05_tv_load_div_second, ValueTag::Int, 1, false, |c| vec![line(AInstr::LoadOffset(-1)), line(AInstr::DivInt(R::Top, R::Top, R::Top))]);
tv_harness!(c05_tv_load_lt_second, ValueTag::Int, 1, false, |c| vec![line(AInstr::LoadOffset(2)), line(AInstr::LessThanInt(R::Top, R::Top, R::Top))]);
// LOAD + LOAD + op => both operands in place (two passes)
tv_harness!(c05_tv_load_load_sub, ValueTag::Int, 0, false, |c| vec![line(AInstr::LoadOffset(1)), line(AInstr::LoadOffset(-2)), line(AInstr::SubInt(R::Top, R::Top, R::Top))]);
tv_harness!(c05_tv_load_load_mod, ValueTag::Int, 0, false, |c| vec![line(AInstr::LoadOffset(0)), line(AInstr::LoadOffset(2)), line(AInstr::Modulo(R::Top, R::Top, R::Top))]);
// op + STORE => dest in place
tv_harness!(c05_tv_sub_store, ValueTag::Int, 2, false, |c| vec![line(AInstr::SubInt(R::Top, R::Top, R::Top)), line(AInstr::StoreOffset(2))]);
tv_harness!(c05_tv_load_load_add_store, ValueTag::Int, 0, false, |c| vec![line(AInstr::LoadOffset(0)), line(AInstr::LoadOffset(1)), line(AInstr::AddInt(R::Top, R::Top, R::Top)), line(AInstr::StoreOffset(0))]);
// PUSHINT + op => immediate forms (symbolic constant)
tv_harness!(c05_tv_pushint_sub_imm, ValueTag::Int, 1, false, |c| vec![line(AInstr::PushInt(c[0])), line(AInstr::SubInt(R::Top, R::Top, R::Top))]);
tv_harness!(c05_tv_pushint_div_imm, ValueTag::Int, 1, false, |c| vec![line(AInstr::PushInt(c[0])), line(AInstr::DivInt(R::Top, R::Top, R::Top))]);
tv_harness!(c05_tv_pushint_mod_imm, ValueTag::Int, 1, false, |c| vec![line(AInstr::PushInt(c[0])), line(AInstr::Modulo(R::Top, R::Top, R::Top))]);
tv_harness!(c05_tv_pushint_ge_imm, ValueTag::Int, 1, false, |c| vec![line(AInstr::PushInt(c[0])), line(AInstr::GreaterThanOrEqualInt(R::Top, R::Top, R::Top))]);
tv_harness!(c05_tv_pushint_eq_imm, ValueTag::Int, 1, false, |c| vec![line(AInstr::PushInt(c[0])), line(AInstr::EqualInt(R::Top, R::Top, R::Top))]);
tv_harness!(c05_tv_load_pushint_lt_imm, ValueTag::Int, 0, false, |c| vec![line(AInstr::LoadOffset(1)), line(AInstr::PushInt(c[0])), line(AInstr::LessThanInt(R::Top, R::Top, R::Top))]);
// integer folds: optimize() alone, symbolic constants.  A fold must produce exactly the value the
// unfolded window computes (C15 arm harnesses) and must not fire when the window would fail.
macro_rules! fold_harness {
    ($name:ident, $variant:ident, |$a:ident, $b:ident| $oracle:expr, $pre:expr) => {
        #[kani::proof]
        #[kani::unwind(9)]
        fn $name() {
            let $a: i64 = kani::any();
            let $b: i64 = kani::any();
            kani::assume($pre);
            let before = vec![line(AInstr::PushInt($a)), line(AInstr::PushInt($b)), line(AInstr::$variant(R::Top, R::Top, R::Top))];
            let after = optimize(before);
            let want: Option<i64> = $oracle;
            match want {
                Some(c) => {
                    assert!(after.len() == 1, "a window whose result fits is folded to one constant");
                    let Line::Instr { instr: AInstr::PushInt(got), .. } = &after[0] else { panic!("folded to something else than a constant") };
                    assert!(*got == c, "the folded constant is the exact result");
                    kani::cover!(true, "req: fold fired");
                }
                None => {
                    assert!(after.len() == 3, "a window that would fail at run time is left alone (the error must still happen)");
                    assert!(matches!(&after[2], Line::Instr { instr: AInstr::$variant(..), .. }), "operation kept");
                    kani::cover!(true, "req: fold refused");
                }
            }
            std::mem::forget(after);
        }
    };
}
pub(super) fn fit(e: i128) -> Option<i64> { if fits(e) { Some(e as i64) } else { None } }
fold_harness!(c05_fold_add, AddInt, |a, b| fit(a as i128 + b as i128), true);
fold_harness!(c05_fold_sub, SubInt, |a, b| fit(a as i128 - b as i128), true);
fold_harness!(c05_fold_mul, MulInt, |a, b| fit(a as i128 * b as i128), true);
// division: divisor from a small range plus the extremes (two symbolic 64-bit dividers do not finish)
fold_harness!(c05_fold_div, DivInt, |a, b| if b == 0 || (a == i64::MIN && b == -1) { None } else { Some(a.wrapping_div(b)) },
    b >= -16 && b <= 16 && ((a > -4096 && a < 4096) || a <= i64::MIN + 1 || a >= i64::MAX - 1));
// power: small exponents (the loop of checked_pow is unrolled) and exponents beyond u32
fold_harness!(c05_fold_pow_small, PowInt, |a, b| {
        let mut acc: i128 = 1; let mut k = 0; let mut ok = true;
        while k < 3 { if k < b { acc = acc * a as i128; if !fits(acc) { ok = false; } } k += 1; }
        if ok { Some(acc as i64) } else { None }
    }, b >= 0 && b <= 3);
fold_harness!(c05_fold_pow_huge_exponent, PowInt, |a, b| match a { 0 => Some(0), 1 => Some(1), -1 => Some(if b % 2 == 0 { 1 } else { -1 }), _ => None },
    b > u32::MAX as i64);
// arrays
tv_harness!(c05_tv_load_pushint_arraypush, ValueTag::Int, 0, true, |c| vec![line(AInstr::LoadOffset(0)), line(AInstr::PushInt(c[0])), line(AInstr::ArrayPush(R::Top, R::Top))]);
tv_harness!(c05_tv_load_load_getindex, ValueTag::Int, 0, true, |c| vec![line(AInstr::LoadOffset(0)), line(AInstr::LoadOffset(1)), line(AInstr::GetIndex(R::Top, R::Top))]);
tv_harness!(c05_tv_load_arraylen_store, ValueTag::Int, 0, true, |c| vec![line(AInstr::LoadOffset(0)), line(AInstr::ArrayLength(R::Top, R::Top)), line(AInstr::StoreOffset(2))]);
