// C15 (and the integer part of C01/C05): one real step() of each integer arm,
// full 64-bit symbolic operands, symbolic in-frame register offsets, against
// exact i128 arithmetic.  `/ % ^` use contract stubs of the std primitive
// (see DESIGN 2.2) plus reduced-range direct harnesses.

// What an arm is expected to do, as computed by the oracle.
#[derive(Clone, Copy)]
pub(super) enum Exp {
    Val(Value),
    Err(u8),
}

pub(super) fn fits(e: i128) -> bool {
    e >= i64::MIN as i128 && e <= i64::MAX as i128
}
pub(super) fn exact(e: i128) -> Exp {
    if fits(e) {
        Exp::Val(Value::from(e as i64))
    } else {
        Exp::Err(EK_OVERFLOW)
    }
}

// Runs one step of `instr` (already placed at pc 0 of `t`) and checks the
// outcome against `exp` and the stack model `model` (the expected stack after
// operand fetch, before the result is stored).
pub(super) fn check_step(t: &mut VmGreenThread, mut model: Vec<Value>, dm: M, od: i16, exp: Exp, can_err: bool) {
    t.pc.0 = 0;
    let cont = t.step();
    match exp {
        Exp::Val(v) => {
            put(&mut model, dm, od, v);
            assert!(cont, "arm must continue on success");
            assert!(t.error.is_none(), "no error expected");
            assert!(t.pc.0 == 1, "pc advances by one");
            assert!(same_stack(&t.value_stack, &model), "stack after the step matches the model");
            kani::cover!(true, "reqr: success outcome reachable");
        }
        Exp::Err(k) => {
            assert!(can_err, "this arm has no error outcome in the specification");
            assert!(!cont, "arm must stop on a runtime error");
            assert!(err_code(t) == k, "documented error kind");
            kani::cover!(true, "reqr: error outcome reachable");
        }
    }
    assert!(t.pending_host_func.is_none() && !t.done);
    // vacuity witness: some outcome was checked (an outcome that this harness' pre-state family excludes is dead code, hence "reqr")
    kani::cover!(true, "reqr: a checked outcome is reachable");
}

// dest, reg1, reg2 arm over one operand tag.
macro_rules! arm3 {
    ($name:ident, $variant:ident, $tag:expr, $dm:expr, $m1:expr, $m2:expr, $ce:expr, |$a:ident, $b:ident| $spec:expr) => {
        vm_harness! {
            #[kani::unwind(9)]
            fn $name() {
                let (od, o1, o2) = (OFF_DEST, OFF_R1, OFF_R2);
                let mut t = mk_thread(
                    vec![Instr::$variant(enc($dm, od), enc($m1, o1), enc($m2, o2)), Instr::Stop],
                    vec![],
                    vec![],
                );
                push_frame(&mut t, $tag);
                if $m1 == T { let v = sym_val($tag); t.value_stack.push(v); }
                if $m2 == T { let v = sym_val($tag); t.value_stack.push(v); }
                let mut model = t.value_stack.clone();
                let vb = fetch(&mut model, $m2, o2);
                let va = fetch(&mut model, $m1, o1);
                let $a = va;
                let $b = vb;
                let exp: Exp = $spec;
                check_step(&mut t, model, $dm, od, exp, $ce);
                std::mem::forget(t);
            }
        }
    };
}

// dest, reg1, int immediate (symbolic 3-entry constant table, concrete index)
macro_rules! arm_imm_int {
    ($name:ident, $variant:ident, $dm:expr, $m1:expr, $ce:expr, |$a:ident, $b:ident| $spec:expr) => {
        vm_harness! {
            #[kani::unwind(9)]
            fn $name() {
                let (od, o1) = (OFF_DEST, OFF_R1);
                let consts: [i64; 3] = kani::any();
                // the constant index is concrete: a symbolic field inside the instruction
                // keeps CBMC from folding the instruction fetch (measured: out of memory)
                let ci: u16 = 1;
                let mut t = mk_thread(
                    vec![Instr::$variant(enc($dm, od), enc($m1, o1), ci), Instr::Stop],
                    vec![consts[0], consts[1], consts[2]],
                    vec![],
                );
                push_frame(&mut t, ValueTag::Int);
                if $m1 == T { let v = sym_val(ValueTag::Int); t.value_stack.push(v); }
                let mut model = t.value_stack.clone();
                let va = fetch(&mut model, $m1, o1);
                let $a = va;
                let $b = Value::from(consts[ci as usize]);
                let exp: Exp = $spec;
                check_step(&mut t, model, $dm, od, exp, $ce);
                std::mem::forget(t);
            }
        }
    };
}

pub(super) fn iv(v: Value) -> i128 {
    v.0 as i64 as i128
}
pub(super) fn bv(b: bool) -> Exp {
    Exp::Val(Value::from(b))
}

// ---------- + - * : exact or overflow ----------
arm3!(c15_add_ttt, AddInt, ValueTag::Int, T, T, T, true, |a, b| exact(iv(a) + iv(b)));
arm3!(c15_add_ott, AddInt, ValueTag::Int, O, T, T, true, |a, b| exact(iv(a) + iv(b)));
arm3!(c15_add_tto, AddInt, ValueTag::Int, T, T, O, true, |a, b| exact(iv(a) + iv(b)));
arm3!(c15_add_too, AddInt, ValueTag::Int, T, O, O, true, |a, b| exact(iv(a) + iv(b)));
arm3!(c15_add_oto, AddInt, ValueTag::Int, O, T, O, true, |a, b| exact(iv(a) + iv(b)));
arm3!(c15_add_ooo, AddInt, ValueTag::Int, O, O, O, true, |a, b| exact(iv(a) + iv(b)));
arm3!(c15_sub_ttt, SubtractInt, ValueTag::Int, T, T, T, true, |a, b| exact(iv(a) - iv(b)));
arm3!(c15_sub_ott, SubtractInt, ValueTag::Int, O, T, T, true, |a, b| exact(iv(a) - iv(b)));
arm3!(c15_sub_tto, SubtractInt, ValueTag::Int, T, T, O, true, |a, b| exact(iv(a) - iv(b)));
arm3!(c15_sub_too, SubtractInt, ValueTag::Int, T, O, O, true, |a, b| exact(iv(a) - iv(b)));
arm3!(c15_sub_oto, SubtractInt, ValueTag::Int, O, T, O, true, |a, b| exact(iv(a) - iv(b)));
arm3!(c15_sub_ooo, SubtractInt, ValueTag::Int, O, O, O, true, |a, b| exact(iv(a) - iv(b)));
arm3!(c15_mul_ttt, MulInt, ValueTag::Int, T, T, T, true, |a, b| exact(iv(a) * iv(b)));
arm3!(c15_mul_ooo, MulInt, ValueTag::Int, O, O, O, true, |a, b| exact(iv(a) * iv(b)));
arm3!(c15_mul_tto, MulInt, ValueTag::Int, T, T, O, true, |a, b| exact(iv(a) * iv(b)));
arm_imm_int!(c15_addimm_tt, AddIntImm, T, T, true, |a, b| exact(iv(a) + iv(b)));
arm_imm_int!(c15_addimm_to, AddIntImm, T, O, true, |a, b| exact(iv(a) + iv(b)));
arm_imm_int!(c15_addimm_ot, AddIntImm, O, T, true, |a, b| exact(iv(a) + iv(b)));
arm_imm_int!(c15_addimm_oo, AddIntImm, O, O, true, |a, b| exact(iv(a) + iv(b)));
arm_imm_int!(c15_subimm_tt, SubIntImm, T, T, true, |a, b| exact(iv(a) - iv(b)));
arm_imm_int!(c15_subimm_to, SubIntImm, T, O, true, |a, b| exact(iv(a) - iv(b)));
arm_imm_int!(c15_subimm_oo, SubIntImm, O, O, true, |a, b| exact(iv(a) - iv(b)));
arm_imm_int!(c15_mulimm_tt, MulIntImm, T, T, true, |a, b| exact(iv(a) * iv(b)));
arm_imm_int!(c15_mulimm_oo, MulIntImm, O, O, true, |a, b| exact(iv(a) * iv(b)));

// wrapping / xor (used by the prelude's hashing; C24/C27 rely on them)
arm3!(c15_xor_ttt, BitXor, ValueTag::Int, T, T, T, false, |a, b| Exp::Val(Value::from((a.0 ^ b.0) as i64)));
arm3!(c15_wadd_ttt, WrappingAdd, ValueTag::Int, T, T, T, false, |a, b| Exp::Val(Value::from(
    ((iv(a) + iv(b)) as u128 as u64) as i64
)));
arm3!(c15_wmul_ttt, WrappingMul, ValueTag::Int, T, T, T, false, |a, b| Exp::Val(Value::from(
    ((iv(a) * iv(b)) as u128 as u64) as i64
)));

// ---------- integer comparisons ----------
arm3!(c15_lt_ttt, LessThanInt, ValueTag::Int, T, T, T, false, |a, b| bv(iv(a) < iv(b)));
arm3!(c15_lt_too, LessThanInt, ValueTag::Int, T, O, O, false, |a, b| bv(iv(a) < iv(b)));
arm3!(c15_le_ttt, LessThanOrEqualInt, ValueTag::Int, T, T, T, false, |a, b| bv(iv(a) <= iv(b)));
arm3!(c15_gt_ttt, GreaterThanInt, ValueTag::Int, T, T, T, false, |a, b| bv(iv(a) > iv(b)));
arm3!(c15_gt_tto, GreaterThanInt, ValueTag::Int, T, T, O, false, |a, b| bv(iv(a) > iv(b)));
arm3!(c15_ge_ttt, GreaterThanOrEqualInt, ValueTag::Int, T, T, T, false, |a, b| bv(iv(a) >= iv(b)));
arm3!(c15_eq_ttt, EqualInt, ValueTag::Int, T, T, T, false, |a, b| bv(iv(a) == iv(b)));
arm3!(c15_eq_oto, EqualInt, ValueTag::Int, O, T, O, false, |a, b| bv(iv(a) == iv(b)));
arm_imm_int!(c15_ltimm_tt, LessThanIntImm, T, T, false, |a, b| bv(iv(a) < iv(b)));
arm_imm_int!(c15_leimm_tt, LessThanOrEqualIntImm, T, T, false, |a, b| bv(iv(a) <= iv(b)));
arm_imm_int!(c15_gtimm_tt, GreaterThanIntImm, T, T, false, |a, b| bv(iv(a) > iv(b)));
arm_imm_int!(c15_geimm_to, GreaterThanOrEqualIntImm, T, O, false, |a, b| bv(iv(a) >= iv(b)));
arm_imm_int!(c15_eqimm_tt, EqualIntImm, T, T, false, |a, b| bv(iv(a) == iv(b)));
arm_imm_int!(c15_eqimm_oo, EqualIntImm, O, O, false, |a, b| bv(iv(a) == iv(b)));

// ---------- / % ^ through contract stubs of the std primitive ----------
pub(super) static mut G_N: u32 = 0; // number of calls to the stubbed primitive
pub(super) static mut G_A: i64 = 0;
pub(super) static mut G_B: i64 = 0;
pub(super) static mut G_Q: i64 = 0;
pub(super) static mut G_NONE: bool = false;

pub(super) fn checked_div_stub(a: i64, b: i64) -> Option<i64> {
    unsafe {
        G_N += 1;
        G_A = a;
        G_B = b;
    }
    if b == 0 || (a == i64::MIN && b == -1) {
        unsafe { G_NONE = true; }
        None
    } else {
        let q: i64 = kani::any();
        unsafe { G_Q = q; G_NONE = false; }
        Some(q)
    }
}
pub(super) fn checked_rem_euclid_stub(a: i64, b: i64) -> Option<i64> {
    checked_div_stub(a, b)
}
pub(super) fn wrapping_rem_euclid_stub(a: i64, b: i64) -> i64 {
    // documented: panics for b == 0; MIN.wrapping_rem_euclid(-1) == 0
    unsafe {
        G_N += 1;
        G_A = a;
        G_B = b;
    }
    assert!(b != 0, "wrapping_rem_euclid called with a zero divisor (would panic)");
    if a == i64::MIN && b == -1 {
        unsafe { G_Q = 0; G_NONE = false; }
        0
    } else {
        let q: i64 = kani::any();
        unsafe { G_Q = q; G_NONE = false; }
        q
    }
}
pub(super) fn checked_pow_stub(a: i64, e: u32) -> Option<i64> {
    unsafe {
        G_N += 1;
        G_A = a;
        G_B = e as i64;
    }
    let none: bool = kani::any();
    if none {
        unsafe { G_NONE = true; }
        None
    } else {
        let q: i64 = kani::any();
        unsafe { G_Q = q; G_NONE = false; }
        Some(q)
    }
}

// Oracle for `a / b` given what the primitive returned (ghost) — or, in
// concrete playback where stubs are not applied, the primitive itself.
pub(super) fn div_oracle(a: i64, b: i64) -> Option<Exp> {
    if b == 0 {
        return Some(Exp::Err(EK_DIVZERO));
    }
    if a == i64::MIN && b == -1 {
        return Some(Exp::Err(EK_OVERFLOW));
    }
    #[cfg(abra_verif_playback)]
    {
        return Some(Exp::Val(Value::from(a / b)));
    }
    #[cfg(not(abra_verif_playback))]
    unsafe {
        // plumbing: the primitive saw exactly (a, b) once; its answer is the result
        if G_N == 1 && G_A == a && G_B == b && !G_NONE {
            Some(Exp::Val(Value::from(G_Q)))
        } else if G_N == 0 {
            None // primitive not used by this implementation: undecided here (see *_small)
        } else {
            // called with other operands / more than once: the result cannot be a / b in general
            Some(Exp::Err(EK_INTERNAL))
        }
    }
}
pub(super) fn rem_oracle(a: i64, b: i64) -> Option<Exp> {
    if b == 0 {
        return Some(Exp::Err(EK_DIVZERO));
    }
    if a == i64::MIN && b == -1 {
        return Some(Exp::Val(Value::from(0i64)));
    }
    #[cfg(abra_verif_playback)]
    {
        return Some(Exp::Val(Value::from(a.rem_euclid(b))));
    }
    #[cfg(not(abra_verif_playback))]
    unsafe {
        if G_N == 1 && G_A == a && G_B == b && !G_NONE {
            Some(Exp::Val(Value::from(G_Q)))
        } else if G_N == 0 {
            None
        } else {
            Some(Exp::Err(EK_INTERNAL))
        }
    }
}
pub(super) fn pow_oracle(a: i64, b: i64) -> Option<Exp> {
    if b < 0 {
        return None; // negative exponents are outside the property
    }
    if b > u32::MAX as i64 {
        // exact power fits only for a in {0, 1, -1}
        return Some(match a {
            0 => Exp::Val(Value::from(0i64)),
            1 => Exp::Val(Value::from(1i64)),
            -1 => Exp::Val(Value::from(if b % 2 == 0 { 1i64 } else { -1i64 })),
            _ => Exp::Err(EK_OVERFLOW),
        });
    }
    #[cfg(abra_verif_playback)]
    {
        return Some(match a.checked_pow(b as u32) {
            Some(c) => Exp::Val(Value::from(c)),
            None => Exp::Err(EK_OVERFLOW),
        });
    }
    #[cfg(not(abra_verif_playback))]
    unsafe {
        if G_N == 1 && G_A == a && G_B == b {
            Some(if G_NONE { Exp::Err(EK_OVERFLOW) } else { Exp::Val(Value::from(G_Q)) })
        } else if G_N == 0 {
            None
        } else {
            Some(Exp::Err(EK_INTERNAL))
        }
    }
}

// Like check_step but the oracle is evaluated after the step (it reads ghosts).
pub(super) fn check_step_post(
    t: &mut VmGreenThread,
    mut model: Vec<Value>,
    dm: M,
    od: i16,
    oracle: fn(i64, i64) -> Option<Exp>,
    a: i64,
    b: i64,
) {
    t.pc.0 = 0;
    let cont = t.step();
    let Some(exp) = oracle(a, b) else {
        kani::cover!(true, "info: undecided by the contract stub");
        return;
    };
    match exp {
        Exp::Val(v) => {
            put(&mut model, dm, od, v);
            assert!(cont, "arm must continue on success");
            assert!(t.error.is_none(), "no error expected");
            assert!(t.pc.0 == 1);
            assert!(same_stack(&t.value_stack, &model), "result and stack match the model");
            kani::cover!(true, "req: success outcome reachable");
        }
        Exp::Err(k) => {
            assert!(k != EK_INTERNAL, "std primitive called with operands other than (a, b)");
            assert!(!cont, "arm must stop on a runtime error");
            assert!(err_code(t) == k, "documented error kind for this cause");
            kani::cover!(k == EK_DIVZERO, "info: division-by-zero outcome reachable");
            kani::cover!(true, "req: error outcome reachable");
            kani::cover!(k == EK_OVERFLOW, "info: overflow outcome reachable");
        }
    }
}

macro_rules! arm3_post {
    ($name:ident, $variant:ident, $dm:expr, $m1:expr, $m2:expr, $oracle:expr) => {
        vm_harness! {
            #[kani::unwind(9)]
            #[kani::stub(i64::checked_div, checked_div_stub)]
            #[kani::stub(i64::checked_rem_euclid, checked_rem_euclid_stub)]
            #[kani::stub(i64::wrapping_rem_euclid, wrapping_rem_euclid_stub)]
            #[kani::stub(i64::checked_pow, checked_pow_stub)]
            fn $name() {
                let (od, o1, o2) = (OFF_DEST, OFF_R1, OFF_R2);
                let mut t = mk_thread(
                    vec![Instr::$variant(enc($dm, od), enc($m1, o1), enc($m2, o2)), Instr::Stop],
                    vec![],
                    vec![],
                );
                push_frame(&mut t, ValueTag::Int);
                if $m1 == T { let v = sym_val(ValueTag::Int); t.value_stack.push(v); }
                if $m2 == T { let v = sym_val(ValueTag::Int); t.value_stack.push(v); }
                let mut model = t.value_stack.clone();
                let vb = fetch(&mut model, $m2, o2);
                let va = fetch(&mut model, $m1, o1);
                check_step_post(&mut t, model, $dm, od, $oracle, va.0 as i64, vb.0 as i64);
                std::mem::forget(t);
            }
        }
    };
}
macro_rules! arm_imm_post {
    ($name:ident, $variant:ident, $dm:expr, $m1:expr, $oracle:expr) => {
        vm_harness! {
            #[kani::unwind(9)]
            #[kani::stub(i64::checked_div, checked_div_stub)]
            #[kani::stub(i64::checked_rem_euclid, checked_rem_euclid_stub)]
            #[kani::stub(i64::wrapping_rem_euclid, wrapping_rem_euclid_stub)]
            #[kani::stub(i64::checked_pow, checked_pow_stub)]
            fn $name() {
                let (od, o1) = (OFF_DEST, OFF_R1);
                let consts: [i64; 3] = kani::any();
                // the constant index is concrete: a symbolic field inside the instruction
                // keeps CBMC from folding the instruction fetch (measured: out of memory)
                let ci: u16 = 1;
                let mut t = mk_thread(
                    vec![Instr::$variant(enc($dm, od), enc($m1, o1), ci), Instr::Stop],
                    vec![consts[0], consts[1], consts[2]],
                    vec![],
                );
                push_frame(&mut t, ValueTag::Int);
                if $m1 == T { let v = sym_val(ValueTag::Int); t.value_stack.push(v); }
                let mut model = t.value_stack.clone();
                let va = fetch(&mut model, $m1, o1);
                check_step_post(&mut t, model, $dm, od, $oracle, va.0 as i64, consts[ci as usize]);
                std::mem::forget(t);
            }
        }
    };
}

arm3_post!(c15_div_ttt, DivideInt, T, T, T, div_oracle);
arm3_post!(c15_div_too, DivideInt, T, O, O, div_oracle);
arm3_post!(c15_div_ott, DivideInt, O, T, T, div_oracle);
arm_imm_post!(c15_divimm_tt, DivideIntImm, T, T, div_oracle);
arm_imm_post!(c15_divimm_oo, DivideIntImm, O, O, div_oracle);
arm3_post!(c15_mod_ttt, Modulo, T, T, T, rem_oracle);
arm3_post!(c15_mod_tto, Modulo, T, T, O, rem_oracle);
arm_imm_post!(c15_modimm_tt, ModuloImm, T, T, rem_oracle);
arm_imm_post!(c15_modimm_to, ModuloImm, T, O, rem_oracle);
arm3_post!(c15_pow_ttt, PowerInt, T, T, T, pow_oracle);
arm3_post!(c15_pow_oto, PowerInt, O, T, O, pow_oracle);
arm_imm_post!(c15_powimm_tt, PowerIntImm, T, T, pow_oracle);

// ---------- reduced-range direct harnesses for / and % (no stub, no trust) ----------
// |a| < 2^12 or a within 2 of MIN/MAX; |b| <= 64.  Oracle: q*b + r == a with the
// documented rounding, checked with a multiplication (not a division).
pub(super) fn small_operands() -> (i64, i64) {
    let a: i64 = kani::any();
    let b: i64 = kani::any();
    kani::assume(
        (a > -4096 && a < 4096) || a <= i64::MIN + 2 || a >= i64::MAX - 2,
    );
    kani::assume(b >= -64 && b <= 64);
    (a, b)
}
vm_harness! {
    #[kani::unwind(9)]
    fn c15_div_small() {
        let (a, b) = small_operands();
        let mut t = mk_thread(vec![Instr::DivideInt(enc(T, 0), enc(T, 0), enc(T, 0)), Instr::Stop], vec![], vec![]);
        t.value_stack.push(Value::from(a));
        t.value_stack.push(Value::from(b));
        t.pc.0 = 0;
        let cont = t.step();
        if b == 0 {
            assert!(!cont && err_code(&t) == EK_DIVZERO, "zero divisor -> division by zero");
            kani::cover!(true, "req: div by zero");
        } else if a == i64::MIN && b == -1 {
            assert!(!cont && err_code(&t) == EK_OVERFLOW, "MIN / -1 -> overflow");
            kani::cover!(true, "req: overflow");
        } else {
            assert!(cont && t.error.is_none() && t.value_stack.len() == 1);
            let q = t.value_stack[0].0 as i64 as i128;
            assert!(t.value_stack[0].1 == ValueTag::Int);
            let r = a as i128 - q * b as i128;
            let absb = if b < 0 { -(b as i128) } else { b as i128 };
            // truncation toward zero: |r| < |b| and r has the sign of a (or is 0)
            assert!(r < absb && r > -absb, "remainder magnitude below divisor");
            assert!(r == 0 || (r < 0) == (a < 0), "truncation toward zero");
            kani::cover!(r != 0 && a < 0, "req: inexact negative quotient");
        }
        std::mem::forget(t);
    }
}
vm_harness! {
    #[kani::unwind(9)]
    fn c15_mod_small() {
        let (a, b) = small_operands();
        let mut t = mk_thread(vec![Instr::Modulo(enc(T, 0), enc(T, 0), enc(T, 0)), Instr::Stop], vec![], vec![]);
        t.value_stack.push(Value::from(a));
        t.value_stack.push(Value::from(b));
        t.pc.0 = 0;
        let cont = t.step();
        if b == 0 {
            assert!(!cont && err_code(&t) == EK_DIVZERO, "zero divisor -> division by zero");
            kani::cover!(true, "req: div by zero");
        } else {
            assert!(cont && t.error.is_none() && t.value_stack.len() == 1, "remainder is defined for every non-zero divisor");
            assert!(t.value_stack[0].1 == ValueTag::Int);
            let r = t.value_stack[0].0 as i64 as i128;
            let absb = if b < 0 { -(b as i128) } else { b as i128 };
            assert!(r >= 0 && r < absb, "Euclidean remainder in [0, |b|)");
            // reference through the primitive `%` on the same (range-restricted) operands
            let m = a.wrapping_rem(b) as i128;
            let r_ref = if m < 0 { m + absb } else { m };
            assert!(r == r_ref, "r == a mod |b|");
            kani::cover!(a < 0 && r > 0, "req: negative dividend with positive remainder");
            kani::cover!(a == i64::MIN && b == -1, "req: MIN % -1 defined");
        }
        std::mem::forget(t);
    }
}
