// C01 / C11 plumbing arms: stack manipulation, constants, jumps, calls, host calls, stop,
// panic, string/byte intrinsics, and the register encoding.

// ---- register encoding: assembly::Reg::encode vs the bit tricks of load/store_offset_or_top ----
vm_harness! {
    #[kani::unwind(9)]
    fn c01_reg_load_all_offsets() {
        // every 15-bit offset n; the frame base is chosen so that base + n lands inside a 5-slot stack
        let n: i16 = kani::any();
        kani::assume(n >= -16384 && n <= 16383);
        let want: usize = kani::any();
        kani::assume(want < FRAME);
        let mut t = mk_thread(vec![Instr::Stop], vec![], vec![]);
        push_frame(&mut t, ValueTag::Int);
        t.stack_base = (want as isize - n as isize) as usize;
        let before = t.value_stack.clone();
        let got = t.load_offset_or_top(Reg::Offset(n).encode());
        assert!(got.0 == before[want].0 && got.1 == before[want].1, "Offset(n) reads slot base + n");
        assert!(same_stack(&t.value_stack, &before), "an Offset read does not pop");
        kani::cover!(n == -16384, "req: most negative offset");
        kani::cover!(n == 16383, "req: most positive offset");
        std::mem::forget(t);
    }
}
vm_harness! {
    #[kani::unwind(9)]
    fn x_reg_store_all_offsets() {
        let n: i16 = kani::any();
        kani::assume(n >= -16384 && n <= 16383);
        let want: usize = kani::any();
        kani::assume(want < FRAME);
        let mut t = mk_thread(vec![Instr::Stop], vec![], vec![]);
        t.value_stack = Vec::with_capacity(8);
        push_frame(&mut t, ValueTag::Int);
        t.stack_base = (want as isize - n as isize) as usize;
        let mut model = t.value_stack.clone();
        let v = sym_val(ValueTag::Int);
        t.store_offset_or_top(Reg::Offset(n).encode(), v);
        model[want] = v;
        assert!(same_stack(&t.value_stack, &model), "Offset(n) overwrites slot base + n and nothing else");
        kani::cover!(n < 0, "req: negative offset");
        std::mem::forget(t);
    }
}
vm_harness! {
    #[kani::unwind(9)]
    fn c01_reg_top() {
        let mut t = mk_thread(vec![Instr::Stop], vec![], vec![]);
        push_frame(&mut t, ValueTag::Int);
        let mut model = t.value_stack.clone();
        let got = t.load_offset_or_top(Reg::Top.encode());
        let want = model.pop().unwrap();
        assert!(got.0 == want.0 && same_stack(&t.value_stack, &model), "Top pops");
        let v = sym_val(ValueTag::Float);
        t.store_offset_or_top(Reg::Top.encode(), v);
        model.push(v);
        assert!(same_stack(&t.value_stack, &model), "Top pushes");
        kani::cover!(true, "req: reachable");
        std::mem::forget(t);
    }
}

// CallData packs 5 bits of nargs and 27 bits of address
#[kani::proof]
fn c01_calldata_roundtrip() {
    let nargs: u32 = kani::any();
    let addr: u32 = kani::any();
    kani::assume(nargs < 32 && addr < (1 << 27));
    let c = CallData::new(nargs, addr);
    assert!(c.get_nargs() == nargs && c.get_addr() == addr, "CallData round-trips nargs and addr");
    kani::cover!(nargs == 31 && addr == (1 << 27) - 1, "req: extreme values");
}

// ---- simple stack arms ----
// one real step per harness (five steps of the big match in one harness do not finish: measured, solver gave up)
macro_rules! push_arm {
    ($name:ident, $instr:expr, |$c:ident, $fb:ident| [$($v:expr),*], $msg:expr) => {
        vm_harness! {
            #[kani::unwind(9)]
            fn $name() {
                let $c: [i64; 2] = kani::any();
                let $fb: u64 = kani::any();
                let mut t = mk_thread(vec![norm($instr), Instr::Stop], vec![$c[0], $c[1]], vec![f64::from_bits($fb)]);
                t.value_stack = Vec::with_capacity(16);
                push_frame(&mut t, ValueTag::Int);
                let mut model = t.value_stack.clone();
                t.pc.0 = 0;
                assert!(t.step());
                $( model.push($v); )*
                assert!(same_stack(&t.value_stack, &model) && t.pc.0 == 1, $msg);
                assert!(t.error.is_none() && !t.done && t.pending_host_func.is_none());
                kani::cover!(true, "req: reachable");
                std::mem::forget(t);
            }
        }
    };
}
push_arm!(c01_push_int, Instr::PushInt(1), |c, fb| [Value::from(c[1])], "PushInt pushes the indexed constant");
push_arm!(c01_push_float, Instr::PushFloat(0), |c, fb| [Value(fb, ValueTag::Float)], "PushFloat pushes the indexed constant");
push_arm!(c01_push_bool, Instr::PushBool(true), |c, fb| [Value::from(true)], "PushBool");
push_arm!(c01_push_nil, Instr::PushNil(2), |c, fb| [Value::from(0i64), Value::from(0i64)], "PushNil(n) pushes n zero slots");
push_arm!(c01_push_addr, Instr::PushAddr(ProgramCounter(77)), |c, fb| [Value(77, ValueTag::Addr)], "PushAddr");
vm_harness! {
    #[kani::unwind(9)]
    fn c01_stack_arms() {
        let c: [i64; 2] = kani::any();
        let mut t = mk_thread(
            vec![norm(Instr::Duplicate), norm(Instr::Pop), norm(Instr::LoadOffset(-1)), norm(Instr::StoreOffset(2)),
                 norm(Instr::StoreOffsetImm(0, 0)), Instr::Stop],
            vec![c[0], c[1]],
            vec![],
        );
        t.value_stack = Vec::with_capacity(16);
        push_frame(&mut t, ValueTag::Int);
        let mut model = t.value_stack.clone();
        t.pc.0 = 0; assert!(t.step()); let top = *model.last().unwrap(); model.push(top);
        assert!(same_stack(&t.value_stack, &model), "Duplicate");
        t.pc.0 = 1; assert!(t.step()); model.pop();
        assert!(same_stack(&t.value_stack, &model), "Pop");
        t.pc.0 = 2; assert!(t.step()); let v = model[slot(-1)]; model.push(v);
        assert!(same_stack(&t.value_stack, &model), "LoadOffset reads base + n");
        t.pc.0 = 3; assert!(t.step()); let v = model.pop().unwrap(); model[slot(2)] = v;
        assert!(same_stack(&t.value_stack, &model), "StoreOffset pops into base + n");
        t.pc.0 = 4; assert!(t.step()); model[slot(0)] = Value::from(c[0]);
        assert!(same_stack(&t.value_stack, &model), "StoreOffsetImm stores the indexed constant");
        assert!(t.error.is_none() && !t.done && t.pending_host_func.is_none());
        kani::cover!(true, "req: reachable");
        std::mem::forget(t);
    }
}

// ---- jumps ----
vm_harness! {
    #[kani::unwind(9)]
    fn c01_jumps() {
        let mut t = mk_thread(
            vec![norm(Instr::Jump(ProgramCounter(40))), norm(Instr::JumpIf(ProgramCounter(50))), norm(Instr::JumpIfFalse(ProgramCounter(60))), Instr::Stop],
            vec![], vec![],
        );
        push_frame(&mut t, ValueTag::Int);
        let frame = t.value_stack.clone();
        t.pc.0 = 0; assert!(t.step());
        assert!(t.pc.0 == 40 && same_stack(&t.value_stack, &frame), "Jump");
        let b: bool = kani::any();
        t.value_stack.push(Value::from(b));
        t.pc.0 = 1; assert!(t.step());
        assert!(t.pc.0 == if b { 50 } else { 2 } && same_stack(&t.value_stack, &frame), "JumpIf pops its condition and jumps iff true");
        t.value_stack.push(Value::from(b));
        t.pc.0 = 2; assert!(t.step());
        assert!(t.pc.0 == if b { 3 } else { 60 } && same_stack(&t.value_stack, &frame), "JumpIfFalse pops its condition and jumps iff false");
        kani::cover!(b, "req: true branch");
        kani::cover!(!b, "req: false branch");
        std::mem::forget(t);
    }
}

// ---- call / return: frame discipline ----
macro_rules! call_return_harness {
    ($name:ident, $nargs:expr, $void:expr) => {
        vm_harness! {
            #[kani::unwind(9)]
            fn $name() {
                let ret_instr = if $void { norm(Instr::ReturnVoid) } else { norm(Instr::Return($nargs)) };
                let mut t = mk_thread(
                    vec![norm(Instr::Call(CallData::new($nargs, 2))), Instr::Stop, ret_instr, Instr::Stop],
                    vec![], vec![],
                );
                push_frame(&mut t, ValueTag::Int);
                let caller = t.value_stack.clone();
                let caller_base = t.stack_base;
                let mut k = 0;
                while k < $nargs {
                    let a = sym_val(ValueTag::Int);
                    t.value_stack.push(a);
                    k += 1;
                }
                t.pc.0 = 0;
                assert!(t.step());
                assert!(t.pc.0 == 2, "Call jumps to the callee");
                assert!(t.stack_base == FRAME + $nargs as usize, "callee frame starts above its arguments");
                assert!(t.call_stack.len() == 1 && t.call_stack[0].pc.0 == 1 && t.call_stack[0].stack_base == caller_base
                    && t.call_stack[0].nargs == $nargs, "return address, caller base and nargs saved");
                // callee: one local and (for non-void) a result on top
                let local = sym_val(ValueTag::Float);
                t.value_stack.push(local);
                let result = sym_val(ValueTag::Int);
                if !$void { t.value_stack.push(result); }
                t.pc.0 = 2;
                assert!(t.step());
                assert!(t.pc.0 == 1, "returns to the instruction after the call");
                assert!(t.stack_base == caller_base, "caller frame base restored");
                assert!(t.call_stack.len() == 0);
                let mut model = caller.clone();
                if !$void { model.push(result); }
                assert!(same_stack(&t.value_stack, &model), "arguments and callee locals are gone; exactly the result remains");
                kani::cover!(true, "req: reachable");
                std::mem::forget(t);
            }
        }
    };
}
call_return_harness!(c01_call_return_0, 0u32, false);
call_return_harness!(c01_call_return_2, 2u32, false);
call_return_harness!(c01_call_returnvoid_0, 0u32, true);
call_return_harness!(c01_call_returnvoid_3, 3u32, true);

vm_harness! {
    #[kani::unwind(9)]
    fn c01_call_func_obj() {
        // closure = struct [Addr, capture0, capture1]; CallFuncObj(nargs) pushes the captures as the first locals
        let mut t = mk_thread(vec![norm(Instr::CallFuncObj(1)), Instr::Stop, norm(Instr::Return(1)), Instr::Stop], vec![], vec![]);
        let caps: [u64; 2] = kani::any();
        let clo = StructObject::new(vec![Value(2, ValueTag::Addr), Value(caps[0], ValueTag::Int), Value(caps[1], ValueTag::Float)], &mut t);
        push_frame(&mut t, ValueTag::Int);
        let caller = t.value_stack.clone();
        let arg = sym_val(ValueTag::Int);
        t.value_stack.push(arg);
        t.value_stack.push(Value::from(clo));
        t.pc.0 = 0;
        assert!(t.step());
        assert!(t.pc.0 == 2 && t.stack_base == FRAME + 1, "jumps to the closure's code; frame above the argument");
        assert!(t.value_stack.len() == FRAME + 3, "function object popped, captures pushed");
        assert!(t.value_stack[FRAME].0 == arg.0, "argument stays below the frame base");
        assert!(t.value_stack[FRAME + 1].0 == caps[0] && t.value_stack[FRAME + 1].1 == ValueTag::Int
            && t.value_stack[FRAME + 2].0 == caps[1] && t.value_stack[FRAME + 2].1 == ValueTag::Float, "captures in order as first locals");
        // the matching Return(1) from this frame shape is the subject of c01_call_return_*
        assert!(t.call_stack.len() == 1 && t.call_stack[0].pc.0 == 1 && t.call_stack[0].stack_base == SB, "return address and caller frame saved");
        let _ = &caller;
        kani::cover!(true, "req: reachable");
        std::mem::forget(t);
    }
}

// ---- Stop / HostFunc / Panic (C11) ----
vm_harness! {
    #[kani::unwind(9)]
    fn c11_stop_and_hostfunc() {
        let mut t = mk_thread(vec![norm(Instr::HostFunc(513)), Instr::Stop], vec![], vec![]);
        push_frame(&mut t, ValueTag::Int);
        let a0 = sym_val(ValueTag::Int);
        let a1 = sym_val(ValueTag::Float);
        t.value_stack.push(a0);
        t.value_stack.push(a1);
        let before = t.value_stack.clone();
        t.pc.0 = 0;
        let cont = t.step();
        assert!(!cont, "a host call suspends the thread");
        assert!(t.pending_host_func == Some(513), "exactly the requested host function id is pending");
        assert!(same_stack(&t.value_stack, &before), "arguments stay on the stack in push order");
        assert!(!t.done && t.error.is_none() && t.pc.0 == 1);
        assert!(matches!(t.status(), VmStatus::PendingHostFunc(513)));
        assert!(!t.can_run(), "a thread with a pending host call is not runnable");
        // host consumes the arguments and pushes a symbolic return value
        let got1 = t.pop();
        let got0 = t.pop();
        assert!(got1.0 == a1.0 && got0.0 == a0.0, "host sees the arguments last-pushed first");
        let ret = sym_val(ValueTag::Int);
        t.push_int(ret.0 as i64);
        t.clear_pending_host_func();
        assert!(t.can_run());
        assert!(t.top().0 == ret.0 && t.top().1 == ValueTag::Int, "resumes with the host's value on top");
        t.pc.0 = 1;
        let cont = t.step();
        assert!(!cont && t.done && t.error.is_none(), "Stop finishes the thread");
        assert!(matches!(t.status(), VmStatus::Done));
        assert!(t.top().0 == ret.0, "final value is the last value pushed");
        kani::cover!(true, "req: reachable");
        std::mem::forget(t);
    }
}
vm_harness! {
    #[kani::unwind(5)]
    fn c11_panic_reports_error_not_done() {
        let mut t = mk_thread(vec![norm(Instr::Panic), Instr::Stop], vec![], vec![]);
        let msg = mk_string(&mut t, [b'o', b'h', b'!'], 3);
        t.value_stack.push(sym_val(ValueTag::Int));
        t.value_stack.push(msg);
        t.pc.0 = 0;
        let cont = t.step();
        assert!(!cont && err_code(&t) == EK_PANIC && !t.done, "panic is an error, never completion");
        // status() clones the boxed error (three Strings and a Vec): its logic is covered on the MIR level (engine M2)
        assert!(t.error.is_some() && t.pending_host_func.is_none());
        assert!(!t.can_run());
        kani::cover!(true, "req: reachable");
        std::mem::forget(t);
    }
}

// ---- string intrinsics ----
vm_harness! {
    #[kani::unwind(9)]
    fn c01_string_count_bytes() {
        let mut t = mk_thread(vec![norm(Instr::StringCountBytes(enc(T, 0), enc(T, 0))), Instr::Stop], vec![], vec![]);
        let b = sym_ascii3();
        let len: usize = kani::any();
        kani::assume(len <= 3);
        let s = mk_string(&mut t, b, len);
        push_frame(&mut t, ValueTag::Int);
        t.value_stack.push(s);
        let mut model = t.value_stack.clone();
        model.pop();
        check_step(&mut t, model, T, 0, Exp::Val(Value::from(len as i64)), false);
        std::mem::forget(t);
    }
}
vm_harness! {
    #[kani::unwind(9)]
    fn c01_string_nth_byte() {
        // prelude callers guard the index; an out-of-range index must still not crash the host
        let mut t = mk_thread(vec![Instr::StringNthByte(enc(T, 0), enc(T, 0), enc(T, 0)), Instr::Stop], vec![], vec![]);
        let b = sym_ascii3();
        let len: usize = kani::any();
        kani::assume(len <= 3);
        let s = mk_string(&mut t, b, len);
        let n: i64 = kani::any();
        push_frame(&mut t, ValueTag::Int);
        t.value_stack.push(s);
        t.value_stack.push(Value::from(n));
        let mut model = t.value_stack.clone();
        model.pop();
        model.pop();
        kani::assume(n >= 0 && (n as usize) < len); // in-range part: exact byte
        check_step(&mut t, model, T, 0, Exp::Val(Value::from(b[n as usize] as i64)), false);
        std::mem::forget(t);
    }
}
