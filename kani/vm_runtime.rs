// C10 / C11, scheduler layer: the real Runtime::{run_n_steps, run_threads_round_robin,
// finish_thread_turn, drain_new_threads, update_status_helper, try_get_main} run against a
// SCRIPTED thread step: VmGreenThread::run_n_steps is stubbed by a function that applies the
// next symbolic outcome of that thread's script (continue / done / error / pending host call /
// spawn) and logs the call.  The new-thread queue (mpsc) is a one-slot ghost.

use std::sync::mpsc::TryRecvError;

pub(super) const OUT_CONTINUE: u8 = 0;
pub(super) const OUT_DONE: u8 = 1;
pub(super) const OUT_ERROR: u8 = 2;
pub(super) const OUT_HOST: u8 = 3;
pub(super) const OUT_SPAWN: u8 = 4;

pub(super) const NTHREADS: usize = 6; // ids 0..2 belong to runtime A, 3..5 to runtime B
pub(super) const SCRIPT_LEN: usize = 4;
pub(super) static mut SCRIPT: [[u8; SCRIPT_LEN]; NTHREADS] = [[0; SCRIPT_LEN]; NTHREADS];
pub(super) static mut POS: [usize; NTHREADS] = [0; NTHREADS];
pub(super) static mut LOG: [[u8; 8]; 2] = [[0; 8]; 2];
pub(super) static mut LOGN: [usize; 2] = [0; 2];
pub(super) static mut STEPPED_NON_RUNNABLE: bool = false;
pub(super) static mut BAD_STEP_ARG: bool = false;
// pending new thread per runtime (type-erased Box<VmGreenThread>)
pub(super) static mut NEW_SLOT: [*mut u8; 2] = [std::ptr::null_mut(); 2];
pub(super) static mut CUR_RT: usize = 0;
pub(super) static mut SPAWNED: [bool; 2] = [false; 2];

pub(super) fn scripted_error(kind_sel: u8) -> Box<VmError> {
    Box::new(VmError {
        kind: if kind_sel % 2 == 0 { VmErrorKind::DivisionByZero } else { VmErrorKind::IntegerOverflowUnderflow },
        location: VmErrorLocation { filename: String::new(), lineno: 0, function_name: String::new() },
        trace: Vec::new(),
    })
}

pub(super) fn run_n_steps_stub(t: &mut VmGreenThread, steps: u32) {
    unsafe {
        let id = t.id as usize;
        let rt = CUR_RT;
        if !t.can_run() {
            STEPPED_NON_RUNNABLE = true;
        }
        if steps != 1 {
            BAD_STEP_ARG = true;
        }
        if LOGN[rt] < 8 {
            LOG[rt][LOGN[rt]] = (id % 3) as u8;
        }
        LOGN[rt] += 1;
        let p = POS[id];
        let out = if p < SCRIPT_LEN { SCRIPT[id][p] } else { OUT_CONTINUE };
        POS[id] = p + 1;
        match out {
            OUT_DONE => t.done = true,
            OUT_ERROR => t.error = Some(scripted_error(id as u8)),
            OUT_HOST => t.pending_host_func = Some(7),
            OUT_SPAWN => {
                if !SPAWNED[rt] {
                    SPAWNED[rt] = true;
                    let mut nt = Box::new(mk_thread(vec![Instr::Stop], vec![], vec![]));
                    nt.id = (rt * 3 + 2) as u64;
                    NEW_SLOT[rt] = Box::into_raw(Box::new(nt)) as *mut u8;
                }
            }
            _ => {}
        }
    }
}

pub(super) fn try_recv_stub<T>(_r: &Receiver<T>) -> Result<T, TryRecvError> {
    unsafe {
        let rt = CUR_RT;
        if NEW_SLOT[rt].is_null() {
            Err(TryRecvError::Empty)
        } else {
            let b = Box::from_raw(NEW_SLOT[rt] as *mut T);
            NEW_SLOT[rt] = std::ptr::null_mut();
            Ok(*b)
        }
    }
}

pub(super) fn mk_runtime(rt: usize, nthreads: usize) -> Runtime {
    let (sender, receiver) = mpsc::channel();
    std::mem::forget(sender);
    let mut q: VecDeque<Box<VmGreenThread>> = VecDeque::with_capacity(4);
    let mut main = Box::new(mk_thread(vec![Instr::Stop], vec![], vec![]));
    main.is_main = true;
    main.id = (rt * 3) as u64;
    q.push_back(main);
    if nthreads > 1 {
        let mut other = Box::new(mk_thread(vec![Instr::Stop], vec![], vec![]));
        other.id = (rt * 3 + 1) as u64;
        q.push_back(other);
    }
    Runtime { run_queue: q, new_threads: receiver, finished_main_thread: None }
}

pub(super) fn sym_scripts(allow_spawn: bool) {
    // the same symbolic scripts for runtime A (ids 0..2) and runtime B (ids 3..5)
    let mut i = 0;
    while i < 3 {
        let mut k = 0;
        while k < SCRIPT_LEN {
            let o: u8 = kani::any();
            kani::assume(o <= if allow_spawn { OUT_SPAWN } else { OUT_HOST });
            unsafe {
                SCRIPT[i][k] = o;
                SCRIPT[i + 3][k] = o;
            }
            k += 1;
        }
        i += 1;
    }
}

pub(super) fn kind_code(k: &RuntimeStatusKind) -> u8 {
    match k {
        RuntimeStatusKind::Done => 1,
        RuntimeStatusKind::PendingHostFunc => 2,
        RuntimeStatusKind::OutOfSteps => 3,
        RuntimeStatusKind::MainThreadError(e) => match e.kind {
            VmErrorKind::DivisionByZero => 10,
            VmErrorKind::IntegerOverflowUnderflow => 11,
            _ => 19,
        },
    }
}

macro_rules! rt_harness {
    ($(#[$attr:meta])* fn $name:ident() $body:block) => {
        #[kani::proof]
        #[kani::stub(VmGreenThread::run_n_steps, run_n_steps_stub)]
        #[kani::stub(std::sync::mpsc::Receiver::try_recv, try_recv_stub)]
        #[kani::stub(std::sync::mpsc::Sender::send, send_stub)]
        $(#[$attr])*
        fn $name() $body
    };
}

// C11: one call of run_n_steps(budget), two threads, symbolic scripts and budget.
rt_harness! {
    #[kani::unwind(10)]
    fn x_sched_status_truthful_two_threads() {
        sym_scripts(false);
        let budget: u32 = kani::any();
        kani::assume(budget <= 4);
        let mut rt = mk_runtime(0, 2);
        unsafe { CUR_RT = 0; }
        let st = rt.run_n_steps(budget);
        let (logn, main_pos) = unsafe { (LOGN[0], POS[0]) };
        assert!(!unsafe { STEPPED_NON_RUNNABLE }, "a thread that is done, failed or waiting for the host is never stepped");
        assert!(!unsafe { BAD_STEP_ARG }, "threads are stepped one instruction at a time");
        assert!(st.steps_consumed as usize == logn, "steps_consumed counts exactly the executed steps");
        assert!(st.steps_consumed <= budget, "a budget of k executes at most k instructions");
        // what the main thread's script did within the steps it was given
        let mut main_done = false;
        let mut main_err = false;
        let mut main_host = false;
        let mut k = 0;
        while k < SCRIPT_LEN {
            if k < main_pos {
                let o = unsafe { SCRIPT[0][k] };
                if o == OUT_DONE { main_done = true; }
                if o == OUT_ERROR { main_err = true; }
                if o == OUT_HOST { main_host = true; }
            }
            k += 1;
        }
        let code = kind_code(&st.kind);
        if main_done {
            assert!(code == 1, "completion is reported in the same call in which main finishes, whatever other tasks do");
        } else {
            assert!(code != 1, "Done is never reported while main has not finished");
        }
        if main_err {
            assert!(code == 10, "a main-thread error is reported with its kind");
        } else {
            assert!(code != 10 && code != 11 && code != 19, "no error reported unless main failed");
        }
        if main_host {
            assert!(code == 2, "a pending host call of main is reported");
        }
        // other thread pending host call => PendingHostFunc unless main decided the status
        let other_pos = unsafe { POS[1] };
        let mut other_host = false;
        let mut k = 0;
        while k < SCRIPT_LEN {
            if k < other_pos && unsafe { SCRIPT[1][k] } == OUT_HOST { other_host = true; }
            k += 1;
        }
        if code == 2 {
            assert!(main_host || other_host, "PendingHostFunc only if some thread really waits for the host");
        }
        if other_host && !main_done && !main_err && !main_host {
            assert!(code == 2, "a task's pending host call is surfaced");
        }
        kani::cover!(code == 1 && other_host, "req: main done while a task waits for the host");
        kani::cover!(code == 10, "req: main error");
        kani::cover!(code == 3 && st.steps_consumed == budget && budget == 4, "req: budget exhausted");
        kani::cover!(code == 3 && st.steps_consumed < budget, "info: returns early with nothing runnable");
        std::mem::forget(rt);
    }
}

// C10 (scheduler layer): slicing a budget in two gives the same step sequence and status.
rt_harness! {
    #[kani::unwind(10)]
    fn x_sched_budget_split_equivalent() {
        sym_scripts(true);
        let b1: u32 = kani::any();
        let b2: u32 = kani::any();
        kani::assume(b1 <= 3 && b2 <= 3);
        let mut a = mk_runtime(0, 2);
        let mut b = mk_runtime(1, 2);
        unsafe { CUR_RT = 0; }
        let s1 = a.run_n_steps(b1);
        let mut code_a = kind_code(&s1.kind);
        let mut consumed_a = s1.steps_consumed;
        if code_a == 3 {
            let s2 = a.run_n_steps(b2);
            code_a = kind_code(&s2.kind);
            consumed_a += s2.steps_consumed;
        }
        unsafe { CUR_RT = 1; }
        let s = b.run_n_steps(b1 + b2);
        let code_b = kind_code(&s.kind);
        let (na, nb) = unsafe { (LOGN[0], LOGN[1]) };
        // B may run further than A only if A stopped early on a non-OutOfSteps status at the cut
        let n = if na < nb { na } else { nb };
        let mut k = 0;
        while k < 8 {
            if k < n {
                assert!(unsafe { LOG[0][k] == LOG[1][k] }, "the same threads are stepped in the same order");
            }
            k += 1;
        }
        if code_a == 3 || na == nb {
            assert!(na == nb, "same number of steps");
            assert!(code_a == code_b, "same final status");
            assert!(consumed_a == s.steps_consumed, "same steps consumed in total");
        }
        kani::cover!(b1 > 0 && b2 > 0 && na == 6, "req: both slices used fully");
        kani::cover!(unsafe { SPAWNED[0] }, "req: a spawn happened");
        kani::cover!(code_a == 1, "req: main finished");
        std::mem::forget(a); std::mem::forget(b);
    }
}

// C11: top() is the last value pushed by main, also after it moved to finished_main_thread
rt_harness! {
    #[kani::unwind(4)]
    fn x_sched_top_after_done() {
        unsafe {
            SCRIPT[0] = [OUT_CONTINUE, OUT_DONE, 0, 0];
            SCRIPT[1] = [OUT_CONTINUE; SCRIPT_LEN];
        }
        let mut rt = mk_runtime(0, 2);
        let v = sym_val(ValueTag::Int);
        rt.run_queue[0].value_stack.push(Value::from(1i64));
        rt.run_queue[0].value_stack.push(v);
        unsafe { CUR_RT = 0; }
        let st = rt.run_n_steps(10);
        assert!(kind_code(&st.kind) == 1, "done");
        assert!(st.steps_consumed == 3, "main, task, main");
        let top = rt.top();
        assert!(top.0 == v.0 && top.1 == v.1, "the final value is the last value main pushed");
        assert!(rt.finished_main_thread.is_some());
        kani::cover!(true, "req: reachable");
        std::mem::forget(rt);
    }
}

// Thread layer: run_n_steps(1) = maybe_gc(); step()  (budget is not visible to step)
pub(super) static mut GC_CALLS: u32 = 0;
pub(super) static mut STEP_CALLS: u32 = 0;
pub(super) static mut STEP_RET: bool = true;
pub(super) fn maybe_gc_ghost(_t: &mut VmGreenThread) {
    unsafe { GC_CALLS += 1; }
}
pub(super) fn step_ghost(_t: &mut VmGreenThread) -> bool {
    unsafe { STEP_CALLS += 1; STEP_RET }
}
#[kani::proof]
#[kani::unwind(6)]
#[kani::stub(VmGreenThread::maybe_gc, maybe_gc_ghost)]
#[kani::stub(VmGreenThread::step, step_ghost)]
fn c10_thread_run_n_steps_is_n_single_steps() {
    let mut t = mk_thread(vec![Instr::Stop], vec![], vec![]);
    let n: u32 = kani::any();
    kani::assume(n <= 4);
    let keep_going: bool = kani::any();
    unsafe { STEP_RET = keep_going; }
    t.run_n_steps(n);
    let (g, s) = unsafe { (GC_CALLS, STEP_CALLS) };
    if keep_going {
        assert!(s == n && g == n, "n steps, each preceded by one collector increment");
    } else {
        assert!(s == if n > 0 { 1 } else { 0 } && g == s, "stops at the first step that suspends");
    }
    kani::cover!(n == 4 && keep_going, "req: four steps");
    std::mem::forget(t);
}
