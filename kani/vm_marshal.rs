// C36: host bindings carry values without loss.  Round trip through the real
// host_bindings::VmType impls and the real VM heap: v.to_vm(&mut t); T::from_vm(&mut t) == v,
// stack depth restored.  Values symbolic.
use crate::host_bindings::VmType;

macro_rules! marshal_harness {
    ($name:ident, $ty:ty, $mk:expr, $eq:expr) => {
        vm_harness! {
            #[kani::unwind(4)]
            fn $name() {
                let mut t = mk_thread(vec![Instr::Stop], vec![], vec![]);
                let below = sym_val(ValueTag::Int);
                t.value_stack.push(below);
                let v: $ty = $mk;
                let keep = v.clone();
                v.to_vm(&mut t);
                assert!(t.value_stack.len() == 2, "one stack slot per host value");
                let back: $ty = <$ty as VmType>::from_vm(&mut t);
                assert!(t.value_stack.len() == 1 && t.value_stack[0].0 == below.0 && t.value_stack[0].1 == ValueTag::Int, "stack depth restored");
                let eq: fn(&$ty, &$ty) -> bool = $eq;
                assert!(eq(&keep, &back), "value arrives unchanged");
                kani::cover!(true, "req: reachable");
                std::mem::forget(t);
                std::mem::forget(keep);
                std::mem::forget(back);
            }
        }
    };
}

pub(super) fn sym_string2() -> String {
    let b = sym_ascii3();
    let len: usize = kani::any();
    kani::assume(len <= 2);
    let mut s = String::with_capacity(4);
    if len > 0 { s.push(b[0] as char); }
    if len > 1 { s.push(b[1] as char); }
    s
}
pub(super) fn str_eq(a: &String, b: &String) -> bool {
    let (x, y) = (a.as_bytes(), b.as_bytes());
    if x.len() != y.len() { return false; }
    let mut k = 0;
    while k < x.len() {
        if x[k] != y[k] { return false; }
        k += 1;
    }
    true
}

marshal_harness!(c36_int, AbraInt, kani::any(), |a, b| a == b);
marshal_harness!(c36_float_bits, f64, f64::from_bits(kani::any()), |a, b| a.to_bits() == b.to_bits());
marshal_harness!(c36_bool, bool, kani::any(), |a, b| a == b);
marshal_harness!(c36_string, String, sym_string2(), |a, b| str_eq(a, b));
marshal_harness!(c36_tuple_int_bool, (AbraInt, bool), (kani::any(), kani::any()), |a, b| a.0 == b.0 && a.1 == b.1);
marshal_harness!(c36_tuple_int_string_bool, (AbraInt, String, bool), (kani::any(), sym_string2(), kani::any()),
    |a, b| a.0 == b.0 && str_eq(&a.1, &b.1) && a.2 == b.2);
marshal_harness!(c36_option_int, Option<AbraInt>, if kani::any() { Some(kani::any()) } else { None }, |a, b| a == b);
marshal_harness!(c36_option_tuple, Option<(AbraInt, bool)>, if kani::any() { Some((kani::any(), kani::any())) } else { None }, |a, b| a == b);
marshal_harness!(c36_result_int_string, Result<AbraInt, String>, if kani::any() { Ok(kani::any()) } else { Err(sym_string2()) },
    |a, b| match (a, b) { (Ok(x), Ok(y)) => x == y, (Err(x), Err(y)) => str_eq(x, y), _ => false });
marshal_harness!(c36_result_unit_int, Result<(), AbraInt>, if kani::any() { Ok(()) } else { Err(kani::any()) }, |a, b| a == b);
marshal_harness!(c36_vec_int_2, Vec<AbraInt>, { let mut v = Vec::with_capacity(2); v.push(kani::any()); v.push(kani::any()); v },
    |a, b| a.len() == 2 && b.len() == 2 && a[0] == b[0] && a[1] == b[1]);
marshal_harness!(c36_vec_int_0, Vec<AbraInt>, Vec::new(), |a, b| a.len() == 0 && b.len() == 0);
// Vec<Option<bool>> (length 1 or 2) does not finish under CBMC at the 12 GB cap (measured); Vec<T> and Option<T> are covered separately.

// argument order: Abra pushes arguments left to right; generated HostFunctionArgs::from_vm pops
// them last-first (`for arg in args.rev()`), so (a, b, c) arrives as (a, b, c).
vm_harness! {
    #[kani::unwind(9)]
    fn c36_argument_order() {
        let mut t = mk_thread(vec![Instr::Stop], vec![], vec![]);
        push_frame(&mut t, ValueTag::Int);
        let before = t.value_stack.clone();
        let (a, b, c): (AbraInt, bool, f64) = (kani::any(), kani::any(), f64::from_bits(kani::any()));
        // what the compiled call site does
        t.push_int(a);
        t.push_bool(b);
        t.push_float(c);
        // what generated from_vm does for a 3-argument host function
        let arg2: f64 = <f64>::from_vm(&mut t);
        let arg1: bool = <bool>::from_vm(&mut t);
        let arg0: AbraInt = <AbraInt>::from_vm(&mut t);
        assert!(arg0 == a && arg1 == b && arg2.to_bits() == c.to_bits(), "arguments arrive in declaration order");
        assert!(same_stack(&t.value_stack, &before));
        kani::cover!(true, "req: reachable");
        std::mem::forget(t);
    }
}
