// placeholder
