// C32 (a): pc_to_error_location / make_stack_trace on symbolic source tables.
// These harnesses run the REAL location code (no loc/trace stubs).

pub(super) fn mk_loc_thread(tab: [(u32, u32); 3], n: usize) -> VmGreenThread {
    // three tables share the shape but map to different ids so that mix-ups show
    let mut ft = Vec::with_capacity(3);
    let mut lt = Vec::with_capacity(3);
    let mut fnt = Vec::with_capacity(3);
    let mut k = 0;
    while k < n {
        ft.push((tab[k].0, tab[k].1 % 3));
        lt.push((tab[k].0, tab[k].1));
        fnt.push((tab[k].0, (tab[k].1 + 1) % 3));
        k += 1;
    }
    let shared = VmSharedReadonly {
        program: vec![Instr::Stop],
        int_constants: vec![],
        float_constants: vec![],
        static_strings: vec![],
        filename_table: ft,
        lineno_table: lt,
        function_name_table: fnt,
        // distinct lengths identify the arena entry without comparing bytes
        filename_arena: vec![String::new(), String::from("a"), String::from("bb")],
        function_name_arena: vec![String::from("fff"), String::from("gggg"), String::from("hhhhh")],
        heap_size: 0,
    };
    let (sender, receiver) = mpsc::channel();
    std::mem::forget(receiver);
    VmGreenThread::new(Arc::new(shared), sender)
}

pub(super) fn sym_table() -> ([(u32, u32); 3], usize) {
    let n: usize = kani::any();
    kani::assume(n >= 1 && n <= 3);
    let tab: [(u32, u32); 3] = kani::any();
    // tables start at instruction 0 and are strictly increasing in the bytecode index
    kani::assume(tab[0].0 == 0);
    kani::assume(n < 2 || tab[1].0 > tab[0].0);
    kani::assume(n < 3 || tab[2].0 > tab[1].0);
    kani::assume(tab[0].1 < 1000 && tab[1].1 < 1000 && tab[2].1 < 1000);
    (tab, n)
}

// the entry covering instruction index i: the last entry whose start is <= i
pub(super) fn covering(tab: &[(u32, u32); 3], n: usize, i: u32) -> u32 {
    let mut r = tab[0].1;
    if n > 1 && tab[1].0 <= i { r = tab[1].1; }
    if n > 2 && tab[2].0 <= i { r = tab[2].1; }
    r
}

#[kani::proof]
#[kani::unwind(6)]
fn c32_pc_to_error_location() {
    let (tab, n) = sym_table();
    let t = mk_loc_thread(tab, n);
    // an error is raised after pc was advanced: the failing instruction is pc - 1
    let pc: u32 = kani::any();
    kani::assume(pc >= 1 && pc < 100000);
    let loc = t.pc_to_error_location(ProgramCounter(pc));
    let want = covering(&tab, n, pc - 1);
    assert!(loc.lineno == want, "line of the instruction that failed (pc - 1)");
    assert!(loc.filename.len() == (want % 3) as usize, "file of the instruction that failed");
    assert!(loc.function_name.len() == 3 + ((want + 1) % 3) as usize, "function of the instruction that failed");
    kani::cover!(n == 3 && pc == tab[2].0, "req: failing instruction is the last one of an entry");
    kani::cover!(n == 3 && pc - 1 == tab[2].0, "req: failing instruction is the first one of an entry");
    std::mem::forget(t);
}

#[kani::proof]
#[kani::unwind(6)]
fn c32_stack_trace_order() {
    let (tab, n) = sym_table();
    let mut t = mk_loc_thread(tab, n);
    let (p0, p1): (u32, u32) = (kani::any(), kani::any());
    kani::assume(p0 >= 1 && p0 < 1000 && p1 >= 1 && p1 < 1000);
    // outer call made at instruction p0 - 1, inner call at p1 - 1 (return addresses p0, p1)
    t.call_stack.push(CallFrame { pc: ProgramCounter(p0), stack_base: 0, nargs: 0 });
    t.call_stack.push(CallFrame { pc: ProgramCounter(p1), stack_base: 0, nargs: 0 });
    let pc: u32 = kani::any();
    kani::assume(pc >= 1 && pc < 1000);
    t.pc = ProgramCounter(pc);
    let e = t.make_error(VmErrorKind::DivisionByZero);
    assert!(e.location.lineno == covering(&tab, n, pc - 1), "failure location first");
    assert!(e.trace.len() == 2, "one entry per active call");
    // Display prints `once(location).chain(trace.rev())`: innermost call site right after the failure
    let mut it = std::iter::once(&e.location).chain(e.trace.iter().rev());
    let l0 = it.next().unwrap().lineno;
    let l1 = it.next().unwrap().lineno;
    let l2 = it.next().unwrap().lineno;
    assert!(it.next().is_none());
    assert!(l0 == covering(&tab, n, pc - 1), "failure location");
    assert!(l1 == covering(&tab, n, p1 - 1), "then the innermost call site");
    assert!(l2 == covering(&tab, n, p0 - 1), "then the outer call site");
    kani::cover!(l1 != l2, "req: distinct call-site lines");
    std::mem::forget(t);
    std::mem::forget(e);
}
