// Included at the end of abra_core/src/parse/lexer.rs under cfg(all(kani, abra_verif)).
// C04 / C29 / C30 / C33: lexer kernels on hand-built character vectors (no String decoding).
mod verif {
    #![allow(unused, dead_code, clippy::all, static_mut_refs)]
    use super::*;
    use crate::FileProvider;
    use crate::ast::FileData;
    use std::path::{Path, PathBuf};

    // ---- hook support: tokenize_file takes its characters from here when set ----
    static mut CHARS: Option<Vec<char>> = None;
    pub(super) fn take_chars() -> Option<Vec<char>> {
        unsafe { CHARS.take() }
    }
    fn give_chars(v: Vec<char>) {
        unsafe { CHARS = Some(v); }
    }

    struct NoFiles;
    impl FileProvider for NoFiles {
        fn search_for_file(&self, _p: &Path, _root: bool) -> Result<FileData, Box<dyn std::error::Error>> {
            Err(Box::new(std::fmt::Error))
        }
    }
    fn mk_ctx() -> (StaticsContext, FileId) {
        let mut ctx = StaticsContext::new(Box::new(NoFiles));
        let id = ctx.file_db.add(FileData::new_simple(PathBuf::new(), String::new()));
        (ctx, id)
    }

    fn pick(alphabet: &[char]) -> char {
        let k: usize = kani::any();
        kani::assume(k < alphabet.len());
        alphabet[k]
    }
    fn mk_lexer(chars: Vec<char>) -> Lexer {
        Lexer { chars, index: 0, tokens: Vec::with_capacity(4) }
    }

    // ------------------------------------------------------------------ C30: handle_num
    // every sequence of exactly 4 chars over {0, 7, _, ., a} that starts with a digit
    #[kani::proof]
    #[kani::unwind(8)]
    fn c30_handle_num() {
        let al = ['0', '7', '_', '.', 'a'];
        let c = [pick(&['0', '7']), pick(&al), pick(&al), pick(&al)];
        let mut v = Vec::with_capacity(4);
        v.push(c[0]); v.push(c[1]); v.push(c[2]); v.push(c[3]);
        let mut lx = mk_lexer(v);
        lx.handle_num();
        // reference scan: digits/underscores, optionally one '.', digits/underscores
        let mut want: [char; 4] = ['\0'; 4];
        let mut wn = 0;
        let mut p = 0;
        let mut is_float = false;
        while p < 4 && (c[p].is_ascii_digit() || c[p] == '_') {
            if c[p] != '_' { want[wn] = c[p]; wn += 1; }
            p += 1;
        }
        if p < 4 && c[p] == '.' {
            is_float = true;
            want[wn] = '.'; wn += 1;
            p += 1;
            while p < 4 && (c[p].is_ascii_digit() || c[p] == '_') {
                if c[p] != '_' { want[wn] = c[p]; wn += 1; }
                p += 1;
            }
        }
        assert!(lx.tokens.len() == 1, "exactly one token");
        let tok = &lx.tokens[0];
        let text: &String = match &tok.kind {
            TokenKind::IntLit(s) => { assert!(!is_float, "no decimal point => integer literal"); s }
            TokenKind::FloatLit(s) => { assert!(is_float, "decimal point => float literal"); s }
            _ => { assert!(false, "a number token"); return; }
        };
        let tb = text.as_bytes();
        assert!(tb.len() == wn, "digit text has the separators removed and nothing else");
        let mut k = 0;
        while k < 4 {
            if k < wn { assert!(tb[k] == want[k] as u8, "digits in source order"); }
            k += 1;
        }
        assert!(tok.span.lo == 0 && tok.span.hi == p, "span covers exactly the consumed characters");
        assert!(lx.index == p, "scanning resumes right after the literal");
        kani::cover!(is_float && wn == 3 && p == 4, "req: float with a separator");
        kani::cover!(!is_float && p == 4, "req: four-char integer");
        std::mem::forget(lx);
    }

    // ------------------------------------------------------------------ C30: scan_for_unescaped_delim
    macro_rules! scan_harness {
        ($name:ident, $delim:expr, $stop_nl:expr) => {
            #[kani::proof]
            #[kani::unwind(8)]
            fn $name() {
                let d: char = $delim;
                let al = ['\\', d, 'a', '\n'];
                let c = [pick(&al), pick(&al), pick(&al), pick(&al)];
                let mut v = Vec::with_capacity(5);
                v.push(d); v.push(c[0]); v.push(c[1]); v.push(c[2]); v.push(c[3]);
                let lx = mk_lexer(v);
                let stop_nl: bool = $stop_nl;
                let got = scan_for_unescaped_delim(&lx, 1, &[d], stop_nl);
                // reference: walk from offset 1; a backslash escapes the next char
                let mut want: Option<usize> = None;
                let mut p = 1;
                let mut done = false;
                while p < 5 && !done {
                    let ch = c[p - 1];
                    if stop_nl && ch == '\n' { done = true; }
                    else if ch == '\\' { p += 2; }
                    else if ch == d { want = Some(p); done = true; }
                    else { p += 1; }
                }
                assert!(got == want, "first delimiter that is not escaped by a backslash");
                kani::cover!(matches!(want, Some(4)), "req: delimiter at the end");
                kani::cover!(want.is_none() && c[3] == d, "req: escaped final delimiter");
                std::mem::forget(lx);
            }
        };
    }
    scan_harness!(c30_scan_for_unescaped_delim_quote_line, '"', true);
    scan_harness!(c30_scan_for_unescaped_delim_quote_multiline, '"', false);
    scan_harness!(c30_scan_for_unescaped_delim_single_quote, '\'', false);

    // ------------------------------------------------------------------ C30: process_escapes_into
    fn format_stub(_a: std::fmt::Arguments<'_>) -> String {
        // only reached for \xNN, which the alphabet below cannot spell
        panic!("format! reached")
    }
    #[kani::proof]
    #[kani::unwind(8)]
    #[kani::stub(alloc::fmt::format, format_stub)]
    fn c30_process_escapes() {
        let al = ['\\', 'n', 't', '"', 'a', 'q'];
        let c = [pick(&al), pick(&al), pick(&al)];
        let n: usize = kani::any();
        kani::assume(n <= 3);
        let (mut ctx, fid) = mk_ctx();
        let s = process_escapes_into(&c[..n], &mut ctx, fid);
        // reference unescape
        let mut want: [char; 3] = ['\0'; 3];
        let mut wn = 0;
        let mut errs = 0;
        let mut p = 0;
        while p < n {
            if c[p] == '\\' && p + 1 < n {
                match c[p + 1] {
                    'n' => { want[wn] = '\n'; wn += 1; }
                    't' => { want[wn] = '\t'; wn += 1; }
                    '"' => { want[wn] = '"'; wn += 1; }
                    '\\' => { want[wn] = '\\'; wn += 1; }
                    _ => { errs += 1; }
                }
                p += 2;
            } else {
                want[wn] = c[p]; wn += 1;
                p += 1;
            }
        }
        let sb = s.as_bytes();
        assert!(sb.len() == wn, "decoded length");
        let mut k = 0;
        while k < 3 {
            if k < wn { assert!(sb[k] == want[k] as u8, "decoded text"); }
            k += 1;
        }
        assert!(ctx.errors.len() == errs, "a diagnostic exactly for each unrecognised escape");
        kani::cover!(errs == 1, "req: unrecognised escape");
        kani::cover!(wn == 2 && n == 3, "req: one escape and one plain char");
        std::mem::forget(ctx);
        std::mem::forget(s);
    }

    // ------------------------------------------------------------------ C29 / C04 / C33: tokenize_file on fixed-length inputs
    fn kinds_of(tokens: &Vec<Token>) -> [u8; 6] {
        // 1 ident, 2 newline, 3 eof, 4 star, 5 slash, 9 other
        let mut out = [0u8; 6];
        let mut k = 0;
        while k < 6 {
            if k < tokens.len() {
                out[k] = match &tokens[k].kind {
                    TokenKind::Ident(_) => 1,
                    TokenKind::Newline => 2,
                    TokenKind::Eof => 3,
                    TokenKind::Star => 4,
                    TokenKind::Slash => 5,
                    _ => 9,
                };
            }
            k += 1;
        }
        out
    }

    // `a/*` t `*/b` with t = every string of exactly N chars over {x, *, /, space, newline}
    // that does not contain the closing delimiter: tokens must be those of `a b`.
    macro_rules! block_comment_harness {
        ($name:ident, $n:expr) => {
            #[kani::proof]
            #[kani::unwind(12)]
            fn $name() {
                let al = ['x', '*', '/', ' ', '\n'];
                let t = [pick(&al), pick(&al)];
                let n: usize = $n;
                // the comment text must not contain `*/`, and must not end in `*` (which would close early with the final `/`)
                if n == 2 { kani::assume(!(t[0] == '*' && t[1] == '/')); }
                let mut v = Vec::with_capacity(8);
                v.push('a'); v.push('/'); v.push('*');
                if n > 0 { v.push(t[0]); }
                if n > 1 { v.push(t[1]); }
                v.push('*'); v.push('/'); v.push('b');
                give_chars(v);
                let (mut ctx, fid) = mk_ctx();
                let tokens = tokenize_file(&mut ctx, fid);
                let k = kinds_of(&tokens);
                assert!(tokens.len() == 3 && k[0] == 1 && k[1] == 1 && k[2] == 3, "a block comment is skipped whatever it contains: tokens of `a b`");
                assert!(ctx.errors.len() == 0, "no diagnostics");
                kani::cover!(n == 0 || t[0] == '*', "req: comment text with a star");
                std::mem::forget(ctx);
                std::mem::forget(tokens);
            }
        };
    }
    block_comment_harness!(c29_block_comment_0, 0);
    block_comment_harness!(c29_block_comment_1, 1);
    block_comment_harness!(c29_block_comment_2, 2);

    // `a//` t newline `b`
    #[kani::proof]
    #[kani::unwind(12)]
    fn c29_line_comment_2() {
        let al = ['x', '*', '/', ' ', '"'];
        let t = [pick(&al), pick(&al)];
        let mut v = Vec::with_capacity(8);
        v.push('a'); v.push('/'); v.push('/'); v.push(t[0]); v.push(t[1]); v.push('\n'); v.push('b');
        give_chars(v);
        let (mut ctx, fid) = mk_ctx();
        let tokens = tokenize_file(&mut ctx, fid);
        let k = kinds_of(&tokens);
        assert!(tokens.len() == 4 && k[0] == 1 && k[1] == 2 && k[2] == 1 && k[3] == 3, "a line comment runs to the end of the line: tokens of `a` newline `b`");
        assert!(ctx.errors.len() == 0);
        kani::cover!(t[0] == '"', "req: quote inside a comment");
        std::mem::forget(ctx);
        std::mem::forget(tokens);
    }

    // C04 / C33: any 2 chars over an operator/space alphabet (plus one non-ASCII char): terminates,
    // last token is Eof, spans are ordered, within the input and non-overlapping.
    #[kani::proof]
    #[kani::unwind(12)]
    fn c04_tokenize_two_chars() {
        let al = ['a', '1', '.', '-', '=', '/', '*', ' ', '\n', '\\', '#', '!', '<', '|', '_', 'é'];
        let c = [pick(&al), pick(&al)];
        let mut v = Vec::with_capacity(2);
        v.push(c[0]); v.push(c[1]);
        give_chars(v);
        let (mut ctx, fid) = mk_ctx();
        let tokens = tokenize_file(&mut ctx, fid);
        let n = tokens.len();
        assert!(n >= 1 && n <= 3, "at most one token per character plus Eof");
        assert!(matches!(tokens[n - 1].kind, TokenKind::Eof), "token stream ends with Eof");
        let mut prev_hi = 0;
        let mut k = 0;
        while k < 3 {
            if k + 1 < n {
                let sp = tokens[k].span;
                assert!(sp.lo < sp.hi && sp.hi <= 2, "a token's span is non-empty and inside the input");
                assert!(sp.lo >= prev_hi, "spans do not overlap and are in source order");
                prev_hi = sp.hi;
            }
            k += 1;
        }
        assert!(ctx.errors.len() <= 2, "at most one diagnostic per character");
        kani::cover!(ctx.errors.len() == 1, "req: an unrecognised character");
        kani::cover!(n == 3, "req: two tokens");
        std::mem::forget(ctx);
        std::mem::forget(tokens);
    }

    include!(concat!(env!("ABRA_VERIF_HARNESS_DIR"), "/lexer_playback.rs"));
}
