// C16: float arms, conversions, comparisons.  Operands are symbolic f64 *bit patterns*
// (all NaN payloads, both zeros, subnormals, infinities).

pub(super) fn fv(v: Value) -> f64 {
    f64::from_bits(v.0)
}
pub(super) fn fexp(x: f64) -> Exp {
    Exp::Val(Value::from(x))
}

// Reference total order, written on the sign-magnitude encoding (NOT via total_cmp):
// negative numbers order by descending magnitude below all non-negative ones.
pub(super) fn ord_key(v: Value) -> u64 {
    let bits = v.0;
    if bits >> 63 == 1 { !bits } else { bits | (1u64 << 63) }
}

// dest, reg1, float immediate
macro_rules! arm_imm_float {
    ($name:ident, $variant:ident, $dm:expr, $m1:expr, $ce:expr, |$a:ident, $b:ident| $spec:expr) => {
        vm_harness! {
            #[kani::unwind(9)]
            fn $name() {
                let (od, o1) = (OFF_DEST, OFF_R1);
                let cbits: [u64; 3] = kani::any();
                let ci: u16 = 1;
                let mut t = mk_thread(
                    vec![Instr::$variant(enc($dm, od), enc($m1, o1), ci), Instr::Stop],
                    vec![],
                    vec![f64::from_bits(cbits[0]), f64::from_bits(cbits[1]), f64::from_bits(cbits[2])],
                );
                push_frame(&mut t, ValueTag::Float);
                if $m1 == T { let v = sym_val(ValueTag::Float); t.value_stack.push(v); }
                let mut model = t.value_stack.clone();
                let va = fetch(&mut model, $m1, o1);
                let $a = va;
                let $b = Value(cbits[ci as usize], ValueTag::Float);
                let exp: Exp = $spec;
                check_step(&mut t, model, $dm, od, exp, $ce);
                std::mem::forget(t);
            }
        }
    };
}

// ---- arithmetic: bit-equal to the Rust operator on (a, b) in this order ----
arm3!(c16_add_ttt, AddFloat, ValueTag::Float, T, T, T, false, |a, b| fexp(fv(a) + fv(b)));
arm3!(c16_sub_ttt, SubFloat, ValueTag::Float, T, T, T, false, |a, b| fexp(fv(a) - fv(b)));
arm3!(c16_sub_too, SubFloat, ValueTag::Float, T, O, O, false, |a, b| fexp(fv(a) - fv(b)));
arm3!(c16_mul_ttt, MulFloat, ValueTag::Float, T, T, T, false, |a, b| fexp(fv(a) * fv(b)));
arm_imm_float!(c16_addimm_tt, AddFloatImm, T, T, false, |a, b| fexp(fv(a) + fv(b)));
arm_imm_float!(c16_subimm_tt, SubFloatImm, T, T, false, |a, b| fexp(fv(a) - fv(b)));
arm_imm_float!(c16_subimm_oo, SubFloatImm, O, O, false, |a, b| fexp(fv(a) - fv(b)));
arm_imm_float!(c16_mulimm_tt, MulFloatImm, T, T, false, |a, b| fexp(fv(a) * fv(b)));

// ---- division: a zero divisor (either zero) is a division-by-zero error ----
// Two symbolic 64-bit float dividers (implementation + oracle) do not finish under CBMC
// (measured: > 400 s), so the divisor ranges over a fixed set chosen nondeterministically
// (both zeros, +-1, -2, 3, the extremes, inf, NaN); the dividend is fully symbolic.
pub(super) fn divisor_from_set() -> u64 {
    let k: u8 = kani::any();
    kani::assume(k < 10);
    let f: f64 = match k {
        0 => 0.0,
        1 => -0.0,
        2 => 1.0,
        3 => -1.0,
        4 => -2.0,
        5 => 3.0,
        6 => 1.7976931348623157e308,
        7 => 5e-324,
        8 => f64::INFINITY,
        _ => f64::NAN,
    };
    f.to_bits()
}
pub(super) fn fdiv_spec(a: Value, b: Value) -> Exp {
    let bb = b.0 & !(1u64 << 63);
    if bb == 0 {
        Exp::Err(EK_DIVZERO)
    } else {
        fexp(fv(a) / fv(b))
    }
}
macro_rules! div_float_harness {
    ($name:ident, $m1:expr, $m2:expr) => {
        vm_harness! {
            #[kani::unwind(9)]
            fn $name() {
                let (od, o1, o2) = (OFF_DEST, OFF_R1, OFF_R2);
                let mut t = mk_thread(vec![Instr::DivFloat(enc(T, od), enc($m1, o1), enc($m2, o2)), Instr::Stop], vec![], vec![]);
                push_frame(&mut t, ValueTag::Float);
                let b = Value(divisor_from_set(), ValueTag::Float);
                if $m2 == O { t.value_stack[slot(o2)] = b; }
                if $m1 == T { let v = sym_val(ValueTag::Float); t.value_stack.push(v); }
                if $m2 == T { t.value_stack.push(b); }
                let mut model = t.value_stack.clone();
                let vb = fetch(&mut model, $m2, o2);
                let va = fetch(&mut model, $m1, o1);
                check_step(&mut t, model, T, od, fdiv_spec(va, vb), true);
                std::mem::forget(t);
            }
        }
    };
}
div_float_harness!(c16_div_ttt, T, T);
div_float_harness!(c16_div_tto, T, O);
macro_rules! div_float_imm_harness {
    ($name:ident, $m1:expr) => {
        vm_harness! {
            #[kani::unwind(9)]
            fn $name() {
                let (od, o1) = (OFF_DEST, OFF_R1);
                let b = Value(divisor_from_set(), ValueTag::Float);
                let mut t = mk_thread(vec![Instr::DivFloatImm(enc(T, od), enc($m1, o1), 1), Instr::Stop], vec![], vec![7.0, fv(b), 9.0]);
                push_frame(&mut t, ValueTag::Float);
                if $m1 == T { let v = sym_val(ValueTag::Float); t.value_stack.push(v); }
                let mut model = t.value_stack.clone();
                let va = fetch(&mut model, $m1, o1);
                check_step(&mut t, model, T, od, fdiv_spec(va, b), true);
                std::mem::forget(t);
            }
        }
    };
}
div_float_imm_harness!(c16_divimm_tt, T);
div_float_imm_harness!(c16_divimm_to, O);

// ---- comparisons against the reference total order ----
arm3!(c16_lt_ttt, LessThanFloat, ValueTag::Float, T, T, T, false, |a, b| bv(ord_key(a) < ord_key(b)));
arm3!(c16_le_ttt, LessThanOrEqualFloat, ValueTag::Float, T, T, T, false, |a, b| bv(ord_key(a) <= ord_key(b)));
arm3!(c16_gt_ttt, GreaterThanFloat, ValueTag::Float, T, T, T, false, |a, b| bv(ord_key(a) > ord_key(b)));
arm3!(c16_ge_ttt, GreaterThanOrEqualFloat, ValueTag::Float, T, T, T, false, |a, b| bv(ord_key(a) >= ord_key(b)));
arm3!(c16_eq_ttt, EqualFloat, ValueTag::Float, T, T, T, false, |a, b| bv(ord_key(a) == ord_key(b)));
arm3!(c16_lt_too, LessThanFloat, ValueTag::Float, T, O, O, false, |a, b| bv(ord_key(a) < ord_key(b)));
arm3!(c16_ge_tto, GreaterThanOrEqualFloat, ValueTag::Float, T, T, O, false, |a, b| bv(ord_key(a) >= ord_key(b)));
arm_imm_float!(c16_ltimm_tt, LessThanFloatImm, T, T, false, |a, b| bv(ord_key(a) < ord_key(b)));
arm_imm_float!(c16_leimm_tt, LessThanOrEqualFloatImm, T, T, false, |a, b| bv(ord_key(a) <= ord_key(b)));
arm_imm_float!(c16_gtimm_tt, GreaterThanFloatImm, T, T, false, |a, b| bv(ord_key(a) > ord_key(b)));
arm_imm_float!(c16_geimm_tt, GreaterThanOrEqualFloatImm, T, T, false, |a, b| bv(ord_key(a) >= ord_key(b)));
arm_imm_float!(c16_eqimm_tt, EqualFloatImm, T, T, false, |a, b| bv(ord_key(a) == ord_key(b)));

// The reference order is a total order consistent with bit equality, and agrees with
// IEEE `<` on ordinary numbers (so the laws of C16/C24 follow for every arm above).
#[kani::proof]
fn c16_ref_order_laws() {
    let a = Value(kani::any(), ValueTag::Float);
    let b = Value(kani::any(), ValueTag::Float);
    let (ka, kb) = (ord_key(a), ord_key(b));
    assert!((ka == kb) == (a.0 == b.0), "key equality is bit equality");
    let (fa, fb) = (fv(a), fv(b));
    if !fa.is_nan() && !fb.is_nan() && !(fa == 0.0 && fb == 0.0) {
        assert!((ka < kb) == (fa < fb), "agrees with IEEE < on non-NaN operands");
    }
    if fa == 0.0 && fb == 0.0 && a.0 != b.0 {
        assert!((ka < kb) == (a.0 >> 63 == 1), "-0.0 orders below +0.0");
    }
    kani::cover!(fa.is_nan() && !fb.is_nan(), "req: NaN against number");
    kani::cover!(fa < fb, "req: ordinary pair");
}

// ---- unary arms: dest, reg ----
macro_rules! arm2 {
    ($name:ident, $variant:ident, $tag:expr, $dm:expr, $m1:expr, |$a:ident| $spec:expr) => {
        vm_harness! {
            #[kani::unwind(9)]
            fn $name() {
                let (od, o1) = (OFF_DEST, OFF_R1);
                let mut t = mk_thread(
                    vec![norm(Instr::$variant(enc($dm, od), enc($m1, o1))), Instr::Stop],
                    vec![],
                    vec![],
                );
                push_frame(&mut t, $tag);
                if $m1 == T { let v = sym_val($tag); t.value_stack.push(v); }
                let mut model = t.value_stack.clone();
                let va = fetch(&mut model, $m1, o1);
                let $a = va;
                let exp: Exp = $spec;
                check_step(&mut t, model, $dm, od, exp, false);
                std::mem::forget(t);
            }
        }
    };
}

// int_from_float: NaN -> 0, saturating at the i64 range, otherwise the cast's truncation
pub(super) fn int_from_float_spec(a: Value) -> Exp {
    let f = fv(a);
    let r: i64 = if f.is_nan() {
        0
    } else if f >= 9223372036854775808.0 {
        i64::MAX
    } else if f < -9223372036854775808.0 {
        i64::MIN
    } else {
        f as i64
    };
    Exp::Val(Value::from(r))
}
arm2!(c16_int_from_float_tt, IntFromFloat, ValueTag::Float, T, T, |a| int_from_float_spec(a));
arm2!(c16_int_from_float_oo, IntFromFloat, ValueTag::Float, O, O, |a| int_from_float_spec(a));

// float_from_int: the cast (round to nearest); exactness below 2^53 is checked on the cast alone
pub(super) fn float_from_int_spec(a: Value) -> Exp {
    fexp((a.0 as i64) as f64)
}
#[kani::proof]
fn c16_int_float_cast_exact_below_2_53() {
    let n: i64 = kani::any();
    kani::assume(n > -9007199254740992 && n < 9007199254740992);
    let f = n as f64;
    assert!(f as i64 == n, "int -> float -> int is the identity below 2^53");
    kani::cover!(n < 0, "req: negative");
}
arm2!(c16_float_from_int_tt, FloatFromInt, ValueTag::Int, T, T, |a| float_from_int_spec(a));

// Not (C01/C02 plumbing)
arm2!(c01_not_tt, Not, ValueTag::Bool, T, T, |a| bv(a.0 == 0));
arm2!(c01_not_oo, Not, ValueTag::Bool, O, O, |a| bv(a.0 == 0));
arm3!(c01_eqbool_ttt, EqualBool, ValueTag::Bool, T, T, T, false, |a, b| bv((a.0 != 0) == (b.0 != 0)));

