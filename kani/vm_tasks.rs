// C08: SpawnTask deep-copies every capture into the new task (channels stay shared).
// C09: channel arms, one step each, plus the "writer goes away" history.

pub(super) fn struct_ref<'a>(v: Value) -> &'a StructObject {
    unsafe { &*(v.0 as *const StructObject) }
}
pub(super) fn enum_ref<'a>(v: Value) -> &'a EnumObject {
    unsafe { &*(v.0 as *const EnumObject) }
}
pub(super) fn string_ref<'a>(v: Value) -> &'a StringObject {
    unsafe { &*(v.0 as *const StringObject) }
}
pub(super) fn in_heap(t: &VmGreenThread, v: Value) -> bool {
    let mut k = 0;
    while k < t.heap_list.len() {
        if t.heap_list[k] as u64 == v.0 {
            return true;
        }
        k += 1;
    }
    false
}

// Runs SpawnTask(1, 9) with `cap` as the only capture and returns the spawned thread.
pub(super) fn spawn_with_capture(t: &mut VmGreenThread, cap: Value) -> Box<VmGreenThread> {
    // a one-slot stack below the capture (no loops: the recursion bound of deep_copy is the harness unwind bound)
    let below = sym_val(ValueTag::Int);
    t.value_stack.push(below);
    t.value_stack.push(cap);
    unsafe { SENT_COUNT = 0; }
    t.pc.0 = 0;
    let cont = t.step();
    assert!(cont && t.error.is_none() && t.pc.0 == 1, "spawning continues the spawner");
    assert!(t.value_stack.len() == 1 && t.value_stack[0].0 == below.0 && t.value_stack[0].1 == ValueTag::Int, "captures are consumed from the spawner's stack");
    assert!(unsafe { SENT_COUNT } == 1, "exactly one new thread handed to the scheduler");
    let nt = take_sent_thread();
    assert!(nt.pc.0 == 9 && nt.stack_base == 0 && nt.value_stack.len() == 1, "task starts at its code with the captures as its stack");
    assert!(!nt.is_main && !nt.done && nt.error.is_none() && nt.pending_host_func.is_none());
    nt
}
pub(super) fn spawn_prog() -> Vec<Instr> {
    vec![norm(Instr::SpawnTask(1, ProgramCounter(9))), Instr::Stop]
}

macro_rules! c08_scalar {
    ($name:ident, $tag:expr) => {
        vm_harness! {
            #[kani::unwind(3)]
            fn $name() {
                let mut t = mk_thread(spawn_prog(), vec![], vec![]);
                let cap = sym_val($tag);
                let nt = spawn_with_capture(&mut t, cap);
                assert!(nt.value_stack[0].0 == cap.0 && nt.value_stack[0].1 == cap.1, "scalars are copied by value");
                assert!(nt.heap_list.len() == 0);
                kani::cover!(true, "req: reachable");
                std::mem::forget(t); std::mem::forget(nt);
            }
        }
    };
}
c08_scalar!(c08_capture_int, ValueTag::Int);
c08_scalar!(c08_capture_float, ValueTag::Float);
c08_scalar!(c08_capture_bool, ValueTag::Bool);
vm_harness! {
    #[kani::unwind(4)]
    fn c08_capture_string() {
        let mut t = mk_thread(spawn_prog(), vec![], vec![]);
        let b = sym_ascii3();
        let len: usize = kani::any();
        kani::assume(len <= 2);
        let cap = mk_string(&mut t, b, len);
        let nt = spawn_with_capture(&mut t, cap);
        let c = nt.value_stack[0];
        assert!(c.1 == ValueTag::String && c.0 != cap.0, "a fresh string object");
        assert!(in_heap(&nt, c) && !in_heap(&t, c), "owned by the task's heap");
        let s = string_ref(c).str.as_bytes();
        assert!(s.len() == len && (len < 1 || s[0] == b[0]) && (len < 2 || s[1] == b[1]), "equal contents");
        kani::cover!(len == 2, "req: two bytes");
        std::mem::forget(t); std::mem::forget(nt);
    }
}
vm_harness! {
    #[kani::unwind(4)]
    fn c08_capture_array_of_ints() {
        let mut t = mk_thread(spawn_prog(), vec![], vec![]);
        let (cap, e) = fixed_array(&mut t, 2, 4);
        let nt = spawn_with_capture(&mut t, cap);
        let c = nt.value_stack[0];
        assert!(c.1 == ValueTag::Array && c.0 != cap.0, "a fresh array object");
        assert!(in_heap(&nt, c), "owned by the task's heap");
        let d = &arr_ref(c).data;
        assert!(d.len() == 2 && d[0].0 == e[0] && d[1].0 == e[1] && d[0].1 == ValueTag::Int && d[1].1 == ValueTag::Int, "equal elements");
        // independence: mutate the original through the real SetIndex-like write, the copy is unaffected
        unsafe { (&mut *(cap.0 as *mut ArrayObject)).data[0] = Value::from(!(e[0] as i64)); }
        assert!(arr_ref(c).data[0].0 == e[0], "mutation of the original is invisible in the task");
        kani::cover!(true, "req: reachable");
        std::mem::forget(t); std::mem::forget(nt);
    }
}
vm_harness! {
    #[kani::unwind(4)]
    fn c08_capture_empty_array() {
        let mut t = mk_thread(spawn_prog(), vec![], vec![]);
        let (cap, _e) = fixed_array(&mut t, 0, 0);
        let nt = spawn_with_capture(&mut t, cap);
        let c = nt.value_stack[0];
        assert!(c.1 == ValueTag::Array && c.0 != cap.0 && arr_ref(c).data.len() == 0);
        kani::cover!(true, "req: reachable");
        std::mem::forget(t); std::mem::forget(nt);
    }
}
vm_harness! {
    #[kani::unwind(4)]
    fn c08_capture_array_of_strings() {
        let mut t = mk_thread(spawn_prog(), vec![], vec![]);
        let b = sym_ascii3();
        let s0 = mk_string(&mut t, b, 1);
        let cap = Value::from(ArrayObject::new(vec![s0], &mut t));
        let nt = spawn_with_capture(&mut t, cap);
        let c = nt.value_stack[0];
        assert!(c.1 == ValueTag::Array && c.0 != cap.0);
        let d = &arr_ref(c).data;
        assert!(d.len() == 1 && d[0].1 == ValueTag::String && d[0].0 != s0.0, "nested string copied, not shared");
        assert!(in_heap(&nt, d[0]) && in_heap(&nt, c) && nt.heap_list.len() == 2);
        assert!(string_ref(d[0]).str.as_bytes()[0] == b[0]);
        kani::cover!(true, "req: reachable");
        std::mem::forget(t); std::mem::forget(nt);
    }
}
vm_harness! {
    #[kani::unwind(4)]
    fn c08_capture_struct_with_array() {
        let mut t = mk_thread(spawn_prog(), vec![], vec![]);
        let a: u64 = kani::any();
        let (arr, e) = fixed_array(&mut t, 1, 4);
        let cap = Value::from(StructObject::new(vec![Value(a, ValueTag::Int), arr], &mut t));
        let nt = spawn_with_capture(&mut t, cap);
        let c = nt.value_stack[0];
        assert!(c.1 == ValueTag::Struct && c.0 != cap.0 && in_heap(&nt, c));
        let f = struct_ref(c).get_fields();
        assert!(f.len() == 2 && f[0].0 == a && f[0].1 == ValueTag::Int);
        assert!(f[1].1 == ValueTag::Array && f[1].0 != arr.0 && in_heap(&nt, f[1]), "nested array copied into the task's heap");
        assert!(arr_ref(f[1]).data.len() == 1 && arr_ref(f[1]).data[0].0 == e[0]);
        kani::cover!(true, "req: reachable");
        std::mem::forget(t); std::mem::forget(nt);
    }
}
vm_harness! {
    #[kani::unwind(4)]
    fn c08_capture_variant_and_closure() {
        let mut t = mk_thread(spawn_prog(), vec![], vec![]);
        let tag: u16 = kani::any();
        let x: u64 = kani::any();
        // closure = struct [code address, captured int]; wrapped in a variant
        let clo = Value::from(StructObject::new(vec![Value(33, ValueTag::Addr), Value(x, ValueTag::Int)], &mut t));
        let cap = Value::from(EnumObject::new(tag, clo, &mut t));
        let nt = spawn_with_capture(&mut t, cap);
        let c = nt.value_stack[0];
        assert!(c.1 == ValueTag::Variant && c.0 != cap.0 && in_heap(&nt, c));
        let v = enum_ref(c);
        assert!(v.tag == tag, "variant tag preserved");
        assert!(v.val.1 == ValueTag::Struct && v.val.0 != clo.0 && in_heap(&nt, v.val), "payload copied");
        let f = struct_ref(v.val).get_fields();
        assert!(f.len() == 2 && f[0].1 == ValueTag::Addr && f[0].0 == 33 && f[1].0 == x && f[1].1 == ValueTag::Int, "closure code and capture preserved");
        kani::cover!(true, "req: reachable");
        std::mem::forget(t); std::mem::forget(nt);
    }
}
vm_harness! {
    #[kani::unwind(4)]
    fn c08_capture_channel_is_shared() {
        let mut t = mk_thread(spawn_prog(), vec![], vec![]);
        let ch = ChannelObject::new(&mut t);
        let cap = Value::from(ch);
        let nt = spawn_with_capture(&mut t, cap);
        let c = nt.value_stack[0];
        assert!(c.1 == ValueTag::Channel && c.0 != cap.0 && in_heap(&nt, c), "a channel handle owned by the task");
        let orig = unsafe { &*(cap.0 as *const ChannelObject) };
        let copy = unsafe { &*(c.0 as *const ChannelObject) };
        assert!(Arc::ptr_eq(&orig.data, &copy.data), "both handles refer to the same channel");
        kani::cover!(true, "req: reachable");
        std::mem::forget(t); std::mem::forget(nt);
    }
}

// -------------------------------------------------------------------- C09
pub(super) fn chan_prog() -> Vec<Instr> {
    vec![norm(Instr::ChannelWrite), norm(Instr::ChannelRead), Instr::Stop]
}
pub(super) fn chan_ref<'a>(v: Value) -> &'a ChannelObject {
    unsafe { &*(v.0 as *const ChannelObject) }
}
// values in flight are owned by the channel (ChannelValue); a queued scalar is viewed as the Value it carries
pub(super) fn queued_scalar(q: &ChannelValue) -> Value {
    match q {
        ChannelValue::Scalar(v) => *v,
        _ => panic!("expected a scalar in the queue"),
    }
}
pub(super) fn sc(v: Value) -> ChannelValue {
    ChannelValue::Scalar(v)
}
// The order harnesses queue scalars only; ChannelValue::into_value is recursive over a recursive type whose drop glue CBMC cannot
// fold away (measured: > 900 s), so there it is replaced by its scalar case.  The conversions themselves are the subject of the
// c09_conversion_* harnesses.
pub(super) fn into_value_scalar_only(cv: ChannelValue, _vm: &mut VmGreenThread) -> Value {
    match cv {
        ChannelValue::Scalar(v) => v,
        other => {
            std::mem::forget(other);
            panic!("the order harnesses queue scalars only")
        }
    }
}

// queue length is concrete per harness: a symbolic VecDeque length does not finish under CBMC (measured: solver gave up at 12 GB)
macro_rules! c09_write {
    ($name:ident, $n:expr) => {
        vm_harness! {
            #[kani::unwind(4)]
            fn $name() {
                let mut t = mk_thread(chan_prog(), vec![], vec![]);
                let ch = Value::from(ChannelObject::new(&mut t));
                let n: usize = $n;
                let q: [u64; 2] = kani::any();
                if n > 0 { chan_ref(ch).write_value(sc(Value(q[0], ValueTag::Int))); }
                if n > 1 { chan_ref(ch).write_value(sc(Value(q[1], ValueTag::Int))); }
                let below = sym_val(ValueTag::Int);
                t.value_stack.push(below);
                let v = sym_val(ValueTag::Int);
                t.value_stack.push(ch);
                t.value_stack.push(v);
                t.pc.0 = 0;
                let cont = t.step();
                assert!(cont && t.error.is_none() && t.pc.0 == 1, "a write never blocks");
                assert!(t.value_stack.len() == 1 && t.value_stack[0].0 == below.0, "channel and value consumed");
                let data = chan_ref(ch).data.lock().unwrap();
                assert!(data.len() == n + 1, "exactly one element appended");
                assert!(queued_scalar(&data[n]).0 == v.0 && queued_scalar(&data[n]).1 == v.1, "the written value is last");
                assert!(n < 1 || queued_scalar(&data[0]).0 == q[0], "earlier elements keep their order");
                assert!(n < 2 || queued_scalar(&data[1]).0 == q[1], "earlier elements keep their order");
                kani::cover!(true, "req: reachable");
                std::mem::forget(data);
                std::mem::forget(t);
            }
        }
    };
}
c09_write!(c09_write_appends_0, 0);
c09_write!(c09_write_appends_1, 1);
c09_write!(c09_write_appends_2, 2);
// FIFO: ChannelObject::read_value (what the ChannelRead arm calls) takes the FRONT element and leaves the rest in order.
// The arm's non-empty path itself (read_value -> ChannelValue::into_value -> push) is not decidable under Kani: the arm owns an
// Option<ChannelValue>, a recursive type (a channel can carry channels) whose drop glue CBMC cannot fold away (measured: > 900 s even
// with into_value stubbed).  Its parts are: read_value here, the conversions in c09_conversion_*, the empty path in
// c09_read_empty_blocks_only_reader.
macro_rules! c09_read {
    ($name:ident, $n:expr) => {
        vm_harness! {
            #[kani::unwind(4)]
            fn $name() {
                let mut w = mk_thread(chan_prog(), vec![], vec![]);
                let chw = Value::from(ChannelObject::new(&mut w));
                let q: [u64; 3] = kani::any();
                let n: usize = $n;
                chan_ref(chw).write_value(sc(Value(q[0], ValueTag::Int)));
                if n > 1 { chan_ref(chw).write_value(sc(Value(q[1], ValueTag::Float))); }
                if n > 2 { chan_ref(chw).write_value(sc(Value(q[2], ValueTag::Int))); }
                let got = chan_ref(chw).read_value();
                let front_ok = matches!(&got, Some(ChannelValue::Scalar(v)) if v.0 == q[0] && v.1 == ValueTag::Int);
                std::mem::forget(got); // no drop glue of the recursive type in the harness
                assert!(front_ok, "the FRONT element is received");
                let data = chan_ref(chw).data.lock().unwrap();
                assert!(data.len() == n - 1, "exactly that element was removed");
                assert!(n < 2 || (queued_scalar(&data[0]).0 == q[1] && queued_scalar(&data[0]).1 == ValueTag::Float), "the rest keeps its order");
                assert!(n < 3 || (queued_scalar(&data[1]).0 == q[2] && queued_scalar(&data[1]).1 == ValueTag::Int), "the rest keeps its order");
                kani::cover!(true, "req: reachable");
                std::mem::forget(data);
                std::mem::forget(w);
            }
        }
    };
}
c09_read!(c09_read_takes_front_1, 1);
c09_read!(c09_read_takes_front_2, 2);
c09_read!(c09_read_takes_front_3, 3);
vm_harness! {
    #[kani::unwind(4)]
    fn c09_read_empty_blocks_only_reader() {
        let mut r = mk_thread(chan_prog(), vec![], vec![]);
        let ch = Value::from(ChannelObject::new(&mut r));
        r.value_stack.push(sym_val(ValueTag::Int));
        r.value_stack.push(ch);
        let before = r.value_stack.clone();
        r.pc.0 = 1;
        let cont = r.step();
        assert!(cont && r.error.is_none(), "an empty channel is not an error");
        assert!(r.pc.0 == 1, "the read is retried later (pc rewound)");
        assert!(same_stack(&r.value_stack, &before), "stack unchanged while waiting");
        assert!(r.can_run() && !r.done, "the reader stays runnable; nothing else is touched");
        kani::cover!(true, "req: reachable");
        std::mem::forget(r);
    }
}
// the conversions a value goes through on its way: out of the writer's heap at write time, into the reader's heap at read time
vm_harness! {
    #[kani::unwind(3)]
    fn c09_conversion_string() {
        let mut w = mk_thread(chan_prog(), vec![], vec![]);
        let mut r = mk_thread(chan_prog(), vec![], vec![]);
        let b = sym_ascii3();
        let s = mk_string(&mut w, b, 2);
        let cv = ChannelValue::from_value(s, &mut w);
        let got = match cv {
            ChannelValue::String(text) => Value::from(StringObject::new(text, &mut r)), // what into_value does for this variant
            other => { std::mem::forget(other); panic!("a string travels as an owned string") }
        };
        assert!(got.1 == ValueTag::String && got.0 != s.0 && in_heap(&r, got) && !in_heap(&w, got), "an independent copy in the reader's heap");
        let bytes = string_ref(got).str.as_bytes();
        assert!(bytes.len() == 2 && bytes[0] == b[0] && bytes[1] == b[1], "contents equal what was written");
        kani::cover!(true, "req: reachable");
        std::mem::forget(w); std::mem::forget(r);
    }
}
vm_harness! {
    #[kani::unwind(3)]
    fn c09_conversion_scalar_roundtrip() {
        let mut w = mk_thread(chan_prog(), vec![], vec![]);
        let mut r = mk_thread(chan_prog(), vec![], vec![]);
        let v = sym_val(ValueTag::Float);
        let cv = ChannelValue::from_value(v, &mut w);
        let got = into_value_scalar_only(cv, &mut r);
        assert!(got.0 == v.0 && got.1 == v.1 && r.heap_list.len() == 0, "scalars travel by value");
        kani::cover!(true, "req: reachable");
        std::mem::forget(w); std::mem::forget(r);
    }
}
vm_harness! {
    #[kani::unwind(4)]
    fn c09_channel_handle_in_flight_keeps_queue() {
        // A channel sent through a channel: the handle in flight must keep the inner channel's queue -- and the values already written
        // to it -- alive when every task-side handle disappears before the outer read (the writer finished and its heap was released).
        let mut w = mk_thread(chan_prog(), vec![], vec![]);
        let mut r = mk_thread(chan_prog(), vec![], vec![]);
        let inner = Value::from(ChannelObject::new(&mut w));
        let v = sym_val(ValueTag::Int);
        chan_ref(inner).data.lock().unwrap().push_back(ChannelValue::Scalar(v));
        let cv = ChannelValue::from_value(inner, &mut w);
        // ownership: what is in flight holds the queue itself (a strong reference next to the task's own), so the queue and its contents
        // do not depend on any task-side handle staying around
        assert!(Arc::strong_count(&chan_ref(inner).data) == 2, "the handle in flight owns the inner channel's queue");
        // the writing task goes away: releasing its channel object drops the task's handle (what ObjectHeader::dealloc does for this kind)
        unsafe { std::ptr::drop_in_place(&mut (*(inner.0 as *mut ChannelObject)).data); }
        let got = match cv {
            ChannelValue::Channel(_) => cv.into_value(&mut r),
            other => { std::mem::forget(other); panic!("a channel travels as a channel handle") }
        };
        assert!(got.1 == ValueTag::Channel && in_heap(&r, got), "the reader receives a channel object in its own heap");
        let q = chan_ref(got).data.lock().unwrap();
        assert!(q.len() == 1, "the values written before the hand-over are still queued");
        let f = queued_scalar(&q[0]);
        assert!(f.0 == v.0 && f.1 == v.1, "and unchanged");
        kani::cover!(true, "req: reachable");
        std::mem::forget(q);
        std::mem::forget(w); std::mem::forget(r);
    }
}
vm_harness! {
    #[kani::unwind(4)]
    fn c09_written_heap_value_outlives_writer() {
        // A value travelling through a channel must not depend on the writer's lifetime: a finished task is dropped by the
        // scheduler (Runtime::finish_thread_turn) and Drop for VmGreenThread frees every object in its heap_list (C07).
        // Obligation on ONE real ChannelWrite step: what the queue holds afterwards owns its contents (it is not a pointer
        // into the writer's heap) and equals what was written.
        let mut w = mk_thread(chan_prog(), vec![], vec![]);
        let chw = Value::from(ChannelObject::new(&mut w));
        let b = sym_ascii3();
        let s = mk_string(&mut w, b, 2);
        w.value_stack.push(chw);
        w.value_stack.push(s);
        w.pc.0 = 0;
        assert!(w.step() && w.error.is_none());
        let data = chan_ref(chw).data.lock().unwrap();
        assert!(data.len() == 1);
        match &data[0] {
            ChannelValue::String(owned) => {
                let bytes = owned.as_bytes();
                assert!(bytes.len() == 2 && bytes[0] == b[0] && bytes[1] == b[1], "the queue holds the value written");
                assert!(bytes.as_ptr() as u64 != string_ref(s).str.as_ptr() as u64, "the queued text is the channel's own copy, not the writer's buffer");
            }
            _ => assert!(false, "a written string travels as an owned string (it must survive the writer)"),
        }
        kani::cover!(true, "req: reachable");
        std::mem::forget(data);
        std::mem::forget(w);
    }
}
