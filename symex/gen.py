"""Template families for the R-based checks (C02, C05 S-part, C18, C19, C23).
Each template: dict(name, funcs, entry, specs, structs, tags).  Inputs are the entry function's parameters."""
import itertools
import random

V = lambda x: ("var", x)  # noqa: E731
N = lambda n: ("int", n)  # noqa: E731
B = lambda b: ("bool", b)  # noqa: E731


def bin_(op, a, b):
    return ("bin", op, a, b)


def blk(stmts, e=None):
    return ("block", stmts, e)


def fn(name, params, ret, body):
    return (name, params, ret, body)


def T(name, funcs, entry, specs, tags, structs=None):
    return {"name": name, "funcs": funcs, "entry": entry, "specs": specs, "tags": set(tags), "structs": structs or {}}


ARITH = ["+", "-", "*", "/", "%"]
CMP = ["<", "<=", ">", ">=", "==", "!="]


def core_templates():
    ts = []
    x, y, z = V("x"), V("y"), V("z")
    # ---- arithmetic, every operator, variable and literal operands, compound assignment
    for op in ARITH:
        ts.append(T("arith_var_%s" % op, [fn("vf", [("x", "int"), ("y", "int")], "int", blk([], bin_(op, x, y)))], "vf", ["int", "int"], {"C02", "C05", "C15"}))
        for lit in (0, 1, -1, 7, (1 << 63) - 1, -(1 << 63)):
            ts.append(T("arith_lit_%s_%d" % (op, lit), [fn("vf", [("x", "int")], "int", blk([], bin_(op, x, N(lit))))], "vf", ["int"], {"C05", "C15"}))
        ts.append(T("arith_litleft_%s" % op, [fn("vf", [("y", "int")], "int", blk([], bin_(op, N(100), y)))], "vf", ["int"], {"C05", "C15"}))
        ts.append(T("compound_%s" % op, [fn("vf", [("x", "int"), ("y", "int")], "int", blk([("var", "a", x), ("assign", V("a"), op + "=", y)], V("a")))],
                    "vf", ["int", "int"], {"C02", "C15"}))
        ts.append(T("compound_lit_%s" % op, [fn("vf", [("x", "int")], "int", blk([("var", "a", x), ("assign", V("a"), op + "=", N(3))], V("a")))],
                    "vf", ["int"], {"C05", "C15"}))
    for e in (0, 1, 2, 3):
        ts.append(T("pow_%d" % e, [fn("vf", [("x", "int")], "int", blk([], bin_("^", x, N(e))))], "vf", ["int"], {"C02", "C05", "C15"}))
    ts.append(T("neg", [fn("vf", [("x", "int")], "int", blk([], ("un", "-", x)))], "vf", ["int"], {"C02", "C15"}))
    ts.append(T("neg_lit_mod", [fn("vf", [("x", "int")], "int", blk([], bin_("+", bin_("%", N(-7), N(3)), x)))], "vf", ["int"], {"C02"}))
    for op in CMP:
        ts.append(T("cmp_%s" % op, [fn("vf", [("x", "int"), ("y", "int")], "bool", blk([], bin_(op, x, y)))], "vf", ["int", "int"], {"C02", "C05"}))
        ts.append(T("cmp_lit_%s" % op, [fn("vf", [("x", "int")], "bool", blk([], bin_(op, x, N(5))))], "vf", ["int"], {"C05"}))
    # precedence-free nesting, left-to-right evaluation of operands with faults on both sides
    ts.append(T("order_div_both", [fn("vf", [("x", "int"), ("y", "int"), ("z", "int")], "int", blk([], bin_("+", bin_("/", x, y), bin_("%", x, z))))],
                "vf", ["int", "int", "int"], {"C02"}))
    ts.append(T("order_overflow_then_div", [fn("vf", [("x", "int"), ("y", "int")], "int", blk([], bin_("-", bin_("*", x, x), bin_("/", N(1), y))))],
                "vf", ["int", "int"], {"C02"}))
    # ---- short circuit with observable side effects (pushes record evaluation)
    for op in ("and", "or"):
        body = blk([("let", "log", ("arr", [N(0)])),
                    ("let", "r", bin_(op, blk([("expr", ("push", V("log"), N(1)))], V("p")), blk([("expr", ("push", V("log"), N(2)))], V("q")))),
                    ("expr", ("push", V("log"), ("if", V("r"), N(10), N(20))))], V("log"))
        ts.append(T("shortcircuit_%s" % op, [fn("vf", [("p", "bool"), ("q", "bool")], ("array", "int"), body)], "vf", ["bool", "bool"], {"C02"}))
    # ---- argument and element evaluation order
    tick = fn("tick", [("log", ("array", "int")), ("v", "int")], "int", blk([("expr", ("push", V("log"), V("v")))], V("v")))
    three = fn("three", [("a", "int"), ("b", "int"), ("c", "int")], "int", blk([], bin_("-", bin_("-", V("a"), V("b")), V("c"))))
    body = blk([("let", "log", ("arr", [N(0)])),
                ("let", "r", ("call", "three", [("call", "tick", [V("log"), x]), ("call", "tick", [V("log"), y]), ("call", "tick", [V("log"), z])])),
                ("expr", ("push", V("log"), V("r")))], V("log"))
    ts.append(T("arg_order", [tick, three, fn("vf", [("x", "int"), ("y", "int"), ("z", "int")], ("array", "int"), body)], "vf", ["int", "int", "int"], {"C02"}))
    body = blk([("let", "log", ("arr", [N(0)])),
                ("let", "t", ("tuple", [("call", "tick", [V("log"), x]), ("call", "tick", [V("log"), y])])),
                ("let", "a", ("arr", [("call", "tick", [V("log"), y]), ("call", "tick", [V("log"), x])])),
                ("expr", ("push", V("log"), ("index", V("a"), N(1))))], V("log"))
    ts.append(T("tuple_array_order", [tick, fn("vf", [("x", "int"), ("y", "int")], ("array", "int"), body)], "vf", ["int", "int"], {"C02"}))
    # ---- scoping and shadowing
    body = blk([("let", "a", x), ("let", "b", blk([("let", "a", bin_("+", V("a"), N(1)))], bin_("*", V("a"), N(2)))), ("let", "c", V("a"))],
               ("tuple", [V("a"), V("b"), V("c")]))
    ts.append(T("shadow_block", [fn("vf", [("x", "int")], ("tuple", ["int", "int", "int"]), body)], "vf", ["int"], {"C02"}))
    body = blk([("var", "a", x), ("var", "i", N(0)), ("while", bin_("<", V("i"), N(3)), [("let", "a2", bin_("+", V("a"), N(1))), ("assign", V("a"), "=", V("a2")),
                                                                       ("let", "a", N(7)), ("assign", V("i"), "+=", V("a")), ("assign", V("i"), "-=", N(6))])], V("a"))
    ts.append(T("loop_local", [fn("vf", [("x", "int")], "int", body)], "vf", ["int"], {"C02"}))
    # ---- loops with break / continue
    body = blk([("var", "s", N(0)), ("forrange", "i", N(4), [
        ("expr", ("if", bin_("==", V("i"), x), blk([("continue",)], None), blk([], None))),
        ("expr", ("if", bin_("==", V("i"), y), blk([("break",)], None), blk([], None))),
        ("assign", V("s"), "+=", bin_("+", V("i"), N(1)))])], V("s"))
    ts.append(T("for_break_continue", [fn("vf", [("x", "int"), ("y", "int")], "int", body)], "vf", ["int", "int"], {"C02"}))
    body = blk([("var", "s", N(0)), ("forarr", "e", V("a"), [
        ("expr", ("if", bin_("<", V("e"), N(0)), blk([("continue",)], None), blk([], None))),
        ("assign", V("s"), "+=", V("e"))])], V("s"))
    ts.append(T("for_array_sum", [fn("vf", [("a", ("array", "int"))], "int", body)], "vf", [("array", "int", 3)], {"C02"}))
    body = blk([("var", "i", N(0)), ("var", "s", x), ("while", B(True), [
        ("assign", V("i"), "+=", N(1)),
        ("expr", ("if", bin_(">", V("i"), N(3)), blk([("break",)], None), blk([], None))),
        ("expr", ("if", bin_("==", V("i"), y), blk([("continue",)], None), blk([], None))),
        ("assign", V("s"), "*=", N(2))])], V("s"))
    ts.append(T("while_true_break", [fn("vf", [("x", "int"), ("y", "int")], "int", body)], "vf", ["int", "int"], {"C02"}))
    # nested loops: break leaves only the inner loop
    body = blk([("var", "s", N(0)), ("forrange", "i", N(3), [("forrange", "j", N(3), [
        ("expr", ("if", bin_("==", V("j"), x), blk([("break",)], None), blk([], None))),
        ("assign", V("s"), "+=", N(1))])])], V("s"))
    ts.append(T("nested_break", [fn("vf", [("x", "int")], "int", body)], "vf", ["int"], {"C02"}))
    # ---- functions, recursion (depth fixed by a literal), early return
    fact = fn("fact", [("n", "int"), ("acc", "int")], "int", blk([], ("if", bin_("<=", V("n"), N(0)), V("acc"), ("call", "fact", [bin_("-", V("n"), N(1)), bin_("*", V("acc"), V("n"))]))))
    ts.append(T("recursion", [fact, fn("vf", [("x", "int")], "int", blk([], ("call", "fact", [N(3), x])))], "vf", ["int"], {"C02"}))
    body = blk([("expr", ("if", bin_("<", x, N(0)), blk([("return", N(-1))], None), blk([], None))),
                ("forrange", "i", N(3), [("expr", ("if", bin_("==", V("i"), x), blk([("return", bin_("*", V("i"), N(10)))], None), blk([], None)))])], N(99))
    ts.append(T("early_return", [fn("vf", [("x", "int")], "int", body)], "vf", ["int"], {"C02"}))
    # ---- reference semantics of arrays and structs, value semantics of tuples
    mut = fn("mut", [("a", ("array", "int")), ("v", "int")], "void", blk([("assign", ("index", V("a"), N(0)), "=", V("v"))], None))
    body = blk([("let", "a", ("arr", [x, y])), ("let", "b", V("a")), ("expr", ("call", "mut", [V("b"), z])), ("expr", ("push", V("b"), N(5)))],
               ("tuple", [("index", V("a"), N(0)), ("len", V("a")), ("index", V("b"), N(1))]))
    ts.append(T("array_alias", [mut, fn("vf", [("x", "int"), ("y", "int"), ("z", "int")], ("tuple", ["int", "int", "int"]), body)], "vf", ["int", "int", "int"], {"C02"}))
    structs = {"Pt": [("px", "int"), ("py", "int")]}
    bump = fn("bump", [("p", ("struct", "Pt"))], "void", blk([("assign", ("field", V("p"), "px"), "+=", N(1))], None))
    body = blk([("let", "p", ("new", "Pt", [x, y])), ("let", "q", V("p")), ("expr", ("call", "bump", [V("q")])), ("assign", ("field", V("q"), "py"), "=", N(0))],
               ("tuple", [("field", V("p"), "px"), ("field", V("p"), "py")]))
    ts.append(T("struct_alias", [bump, fn("vf", [("x", "int"), ("y", "int")], ("tuple", ["int", "int"]), body)], "vf", ["int", "int"], {"C02"}, structs))
    body = blk([("let", "a", ("arr", [x, y, z])), ("assign", ("index", V("a"), V("i")), "+=", N(1)), ("assign", ("index", V("a"), N(0)), "*=", N(2))], V("a"))
    ts.append(T("index_compound", [fn("vf", [("x", "int"), ("y", "int"), ("z", "int"), ("i", "int")], ("array", "int"), body)], "vf", ["int"] * 4, {"C02"}))
    # ---- void values stored in data structures
    body = blk([("let", "t", ("tuple", [x, ("nil",), y])), ("lettuple", ["a", "u", "b"], V("t"))], bin_("-", V("a"), V("b")))
    ts.append(T("void_in_tuple", [fn("vf", [("x", "int"), ("y", "int")], "int", body)], "vf", ["int", "int"], {"C02"}))
    body = blk([("let", "a", ("arr", [("nil",), ("nil",)])), ("expr", ("push", V("a"), ("nil",)))], bin_("+", ("len", V("a")), x))
    ts.append(T("void_in_array", [fn("vf", [("x", "int")], "int", body)], "vf", ["int"], {"C02"}))
    # ---- `return <call of a void function>` in a helper that is called in the middle of an aggregate (operand stack discipline)
    log = fn("emit_line", [("v", "int")], "void", blk([("print", V("v"))], None))
    wrap = fn("wrap", [("v", "int")], "void", blk([("return", ("call", "emit_line", [V("v")]))], None))
    body = blk([], ("arr", [x, blk([("expr", ("call", "wrap", [y]))], y), z]))
    ts.append(T("return_void_call_in_aggregate", [log, wrap, fn("vf", [("x", "int"), ("y", "int"), ("z", "int")], ("array", "int"), body)], "vf", ["int"] * 3, {"C02", "C01"}))
    # ---- if as expression in both branches, nested
    body = blk([], ("if", bin_("<", x, y), ("if", bin_("<", y, z), N(1), N(2)), ("if", bin_("==", x, z), N(3), N(4))))
    ts.append(T("nested_if", [fn("vf", [("x", "int"), ("y", "int"), ("z", "int")], "int", body)], "vf", ["int"] * 3, {"C02"}))
    # ---- prints
    body = blk([("print", x), ("expr", ("if", bin_(">", x, y), blk([("print", y)], None), blk([], None))), ("print", bin_("+", x, N(1)))], y)
    ts.append(T("prints", [fn("vf", [("x", "int"), ("y", "int")], "int", body)], "vf", ["int", "int"], {"C02"}))
    return ts


def operand_position_templates():
    """every control-transferring expression in every operand position (depth <= 2)"""
    ts = []
    x, y = V("x"), V("y")
    half = fn("half", [("v", "int")], ("option", "int"), blk([], ("if", bin_("==", bin_("%", V("v"), N(2)), N(0)), ("some", bin_("/", V("v"), N(2))), ("none", "int"))))
    add3 = fn("add3", [("a", "int"), ("b", "int"), ("c", "int")], "int", blk([], bin_("+", bin_("+", V("a"), V("b")), V("c"))))
    jumpy = {
        # name: (expression of type int that may transfer control, needs_loop, needs_option_fn)
        "brk": (("if", bin_("==", V("i"), x), blk([("break",)], N(0)), V("i")), True, False),
        "cont": (("if", bin_("==", V("i"), x), blk([("continue",)], N(0)), V("i")), True, False),
        "ret": (("if", bin_("==", V("i"), x), blk([("return", ("some", N(-5)))], N(0)), V("i")), True, False),
        "try": (("try", ("call", "half", [bin_("+", V("i"), x)])), True, True),
        "unwrap": (("unwrap", ("call", "half", [bin_("+", V("i"), x)])), True, True),
        "div": (bin_("/", N(10), bin_("-", V("i"), x)), True, False),
    }
    contexts = {
        "left": lambda e: bin_("+", e, y),
        "right": lambda e: bin_("+", y, e),
        "arg1": lambda e: ("call", "add3", [e, y, N(1)]),
        "arg3": lambda e: ("call", "add3", [y, N(1), e]),
        "tuple2": lambda e: ("index", ("arr", [y, e]), N(1)),
        "index": lambda e: ("index", ("arr", [N(7), N(8), N(9), N(10)]), bin_("%", e, N(4))),
        "nested": lambda e: bin_("*", bin_("+", y, e), N(2)),
    }
    for jn, (je, _loop, needs_opt) in jumpy.items():
        for cn, ctx in contexts.items():
            body = blk([("var", "s", N(0)), ("forrange", "i", N(3), [("assign", V("s"), "+=", ctx(je))])], ("some", V("s")))
            funcs = [add3] + ([half] if needs_opt else []) + [fn("vf", [("x", "int"), ("y", "int")], ("option", "int"), body)]
            ts.append(T("pos_%s_%s" % (jn, cn), funcs, "vf", ["int", "int"], {"C02", "C01", "C23" if jn in ("try", "unwrap") else "C02"}))
    return ts


def try_templates():
    """C23: ? and ! on option / result in statement, operand, argument and nested-call position"""
    ts = []
    for kind in ("option", "result"):
        ok_t = ("option", "int") if kind == "option" else ("result", "int", "int")
        mk_ok = (lambda e: ("some", e)) if kind == "option" else (lambda e: ("ok", e))
        shapes = [("variant", "some", "int"), ("variant", "none", None)] if kind == "option" else [("variant", "ok", "int"), ("variant", "err", "int")]
        inc = fn("inc", [("v", "int")], "int", blk([], bin_("+", V("v"), N(1))))
        for sa, sb in itertools.product(shapes, repeat=2):
            tag = "%s_%s_%s" % (kind, sa[1], sb[1])
            # statement position, then operand position; an accumulator records which statements ran
            body = blk([("let", "log", ("arr", [N(0)])),
                        ("let", "u", ("try", V("a"))), ("expr", ("push", V("log"), V("u"))),
                        ("let", "w", bin_("+", ("try", V("b")), V("u"))), ("expr", ("push", V("log"), V("w")))],
                       mk_ok(("len", V("log"))))
            ts.append(T("try_stmt_operand_" + tag, [fn("vf", [("a", ok_t), ("b", ok_t)], ok_t, body)], "vf", [sa, sb], {"C23", "C02"}))
            body = blk([], mk_ok(("call", "inc", [bin_("*", ("try", V("a")), ("call", "inc", [("try", V("b"))]))])))
            ts.append(T("try_nested_call_" + tag, [inc, fn("vf", [("a", ok_t), ("b", ok_t)], ok_t, body)], "vf", [sa, sb], {"C23"}))
            body = blk([("let", "u", bin_("-", ("unwrap", V("a")), ("unwrap", V("b"))))], V("u"))
            ts.append(T("unwrap_operands_" + tag, [fn("vf", [("a", ok_t), ("b", ok_t)], "int", body)], "vf", [sa, sb], {"C23"}))
        # ? inside a helper propagates only out of the helper
        helper = fn("helper", [("a", ok_t)], ok_t, blk([("let", "u", ("try", V("a")))], mk_ok(bin_("+", V("u"), N(100)))))
        for sa in shapes:
            body = blk([("let", "r", ("call", "helper", [V("a")]))], ("if", ("is_some", V("r")), N(1), N(2)) if kind == "option" else N(7))
            ts.append(T("try_in_helper_%s_%s" % (kind, sa[1]), [helper, fn("vf", [("a", ok_t)], "int", body)], "vf", [sa], {"C23"}))
    # payloads of different void-ness: `?` on a result<void, int> inside a function returning result<int, int>, and the other way round
    x, y = V("x"), V("y")
    rv, ri = ("result", "void", "int"), ("result", "int", "int")
    chk = fn("chk", [("v", "int")], rv, blk([], ("if", bin_(">", V("v"), N(50)), ("err", V("v")), ("ok", ("nil",)))))
    body = blk([("expr", ("try", ("call", "chk", [x])))], ("ok", bin_("+", x, y)))
    ts.append(T("try_void_payload_statement", [chk, fn("vf", [("x", "int"), ("y", "int")], ri, body)], "vf", ["int", "int"], {"C23"}))
    body = blk([("var", "s", N(0)),
                ("forrange", "i", N(2), [("expr", ("try", ("call", "chk", [bin_("+", x, V("i"))]))), ("assign", V("s"), "+=", bin_("+", x, V("i")))])],
               ("ok", bin_("+", V("s"), y)))
    ts.append(T("try_void_payload_in_loop", [chk, fn("vf", [("x", "int"), ("y", "int")], ri, body)], "vf", ["int", "int"], {"C23"}))
    body = blk([("let", "t", ("tuple", [x, ("try", ("call", "chk", [y])), bin_("+", x, N(1))]))], ("ok", N(3)))
    ts.append(T("try_void_payload_in_tuple", [chk, fn("vf", [("x", "int"), ("y", "int")], ri, body)], "vf", ["int", "int"], {"C23"}))
    parse = fn("parse", [("v", "int")], ri, blk([], ("if", bin_("<", V("v"), N(0)), ("err", V("v")), ("ok", bin_("*", V("v"), N(2))))))
    body = blk([("let", "n", ("try", ("call", "parse", [x]))), ("print", V("n")), ("let", "m", ("try", ("call", "parse", [bin_("-", V("n"), y)]))), ("print", V("m"))],
               ("ok", ("nil",)))
    ts.append(T("try_int_payload_in_void_function", [parse, fn("vf", [("x", "int"), ("y", "int")], rv, body)], "vf", ["int", "int"], {"C23"}))
    return ts


def lambda_templates():
    """C19: capture at creation, nesting <= 2, reassignment before/after, two invocations"""
    ts = []
    x, y = V("x"), V("y")
    it = ("fn", ["int"], "int")
    body = blk([("var", "a", x), ("let", "f", ("lam", [("p", "int")], bin_("+", V("p"), V("a")))), ("assign", V("a"), "=", y)],
               ("tuple", [("calllam", V("f"), [N(1)]), ("calllam", V("f"), [N(2)]), V("a")]))
    ts.append(T("capture_then_reassign", [fn("vf", [("x", "int"), ("y", "int")], ("tuple", ["int", "int", "int"]), body)], "vf", ["int", "int"], {"C19", "C02"}))
    body = blk([("var", "a", x), ("assign", V("a"), "+=", N(1)), ("let", "f", ("lam", [("p", "int")], bin_("*", V("p"), V("a"))))],
               ("calllam", V("f"), [y]))
    ts.append(T("reassign_then_capture", [fn("vf", [("x", "int"), ("y", "int")], "int", body)], "vf", ["int", "int"], {"C19"}))
    # nested lambda: the inner one uses a variable the outer one does not use itself
    body = blk([("var", "a", x), ("let", "outer", ("lam", [("p", "int")], ("lam", [("q", "int")], bin_("+", bin_("+", V("p"), V("q")), V("a"))))),
                ("assign", V("a"), "=", N(1000)), ("let", "inner", ("calllam", V("outer"), [y]))],
               ("tuple", [("calllam", V("inner"), [N(1)]), ("calllam", V("inner"), [N(2)])]))
    ts.append(T("nested_capture_inner_only", [fn("vf", [("x", "int"), ("y", "int")], ("tuple", ["int", "int"]), body)], "vf", ["int", "int"], {"C19"}))
    # captures a parameter and a local; each invocation has its own locals
    body = blk([("let", "k", bin_("+", x, N(1))),
                ("let", "f", ("lam", [("p", "int")], blk([("var", "t", V("p")), ("assign", V("t"), "+=", V("k")), ("assign", V("t"), "+=", x)], V("t"))))],
               ("tuple", [("calllam", V("f"), [y]), ("calllam", V("f"), [N(0)])]))
    ts.append(T("capture_param_and_local", [fn("vf", [("x", "int"), ("y", "int")], ("tuple", ["int", "int"]), body)], "vf", ["int", "int"], {"C19"}))
    # lambda passed to a function
    apply2 = fn("apply2", [("f", it), ("v", "int")], "int", blk([], ("calllam", V("f"), [("calllam", V("f"), [V("v")])])))
    body = blk([("let", "d", x)], ("call", "apply2", [("lam", [("p", "int")], bin_("-", V("p"), V("d"))), y]))
    ts.append(T("lambda_argument", [apply2, fn("vf", [("x", "int"), ("y", "int")], "int", body)], "vf", ["int", "int"], {"C19", "C02"}))
    # captured array is shared (reference), captured int is a copy
    body = blk([("let", "a", ("arr", [x])), ("var", "n", y), ("let", "f", ("lam", [("p", "int")], blk([("expr", ("push", V("a"), bin_("+", V("p"), V("n"))))], ("len", V("a"))))),
                ("assign", V("n"), "=", N(0)), ("expr", ("push", V("a"), N(9)))],
               ("tuple", [("calllam", V("f"), [N(1)]), ("index", V("a"), N(2))]))
    ts.append(T("capture_array_reference", [fn("vf", [("x", "int"), ("y", "int")], ("tuple", ["int", "int"]), body)], "vf", ["int", "int"], {"C19"}))
    # lambdas created in a loop capture the loop variable's value of that iteration
    body = blk([("var", "f", ("lam", [("p", "int")], V("p"))), ("var", "g", ("lam", [("p", "int")], V("p"))),
                ("forrange", "i", N(3), [
                    ("expr", ("if", bin_("==", V("i"), N(1)), blk([("assign", V("f"), "=", ("lam", [("p", "int")], bin_("+", bin_("*", V("i"), N(10)), V("p"))))], None), blk([], None))),
                    ("expr", ("if", bin_("==", V("i"), N(2)), blk([("assign", V("g"), "=", ("lam", [("p", "int")], bin_("+", bin_("*", V("i"), N(10)), V("p"))))], None), blk([], None)))])],
               ("tuple", [("calllam", V("f"), [x]), ("calllam", V("g"), [x])]))
    ts.append(T("capture_loop_variable", [fn("vf", [("x", "int")], ("tuple", ["int", "int"]), body)], "vf", ["int"], {"C19"}))
    # three levels: the innermost lambda uses a variable of the function, the two enclosing lambdas do not
    body = blk([("var", "a", x),
                ("let", "l1", ("lam", [("p", "int")], ("lam", [("q", "int")], ("lam", [("r", "int")], bin_("+", bin_("+", bin_("+", V("p"), V("q")), V("r")), V("a")))))),
                ("assign", V("a"), "=", N(-1)),
                ("let", "l2", ("calllam", V("l1"), [N(100)])), ("let", "l3", ("calllam", V("l2"), [y]))],
               ("tuple", [("calllam", V("l3"), [N(1)]), V("a")]))
    ts.append(T("nested_capture_three_levels", [fn("vf", [("x", "int"), ("y", "int")], ("tuple", ["int", "int"]), body)], "vf", ["int", "int"], {"C19"}))
    # the lambda reassigns its captured copy and reads it: every call starts from the value captured at creation, the outer variable is untouched
    body = blk([("var", "a", x),
                ("let", "f", ("lam", [("p", "int")], blk([("assign", V("a"), "=", bin_("+", V("a"), N(10)))], bin_("+", V("a"), V("p"))))),
                ("assign", V("a"), "=", y)],
               ("tuple", [("calllam", V("f"), [N(1)]), ("calllam", V("f"), [N(2)]), V("a")]))
    ts.append(T("assign_captured_and_read", [fn("vf", [("x", "int"), ("y", "int")], ("tuple", ["int", "int", "int"]), body)], "vf", ["int", "int"], {"C19"}))
    # (a lambda that only assigns to an outer variable, `(p) -> { a = 7; p }`, crashes the compiler: C03 territory, not claimed)
    # the captured variable is reassigned and then used only by a nested lambda
    body = blk([("var", "base", x),
                ("let", "mk", ("lam", [("p", "int")], blk([("assign", V("base"), "=", bin_("+", V("base"), V("p")))], ("lam", [("q", "int")], bin_("+", V("base"), V("q")))))),
                ("assign", V("base"), "=", N(-5)),
                ("let", "g", ("calllam", V("mk"), [y]))],
               ("tuple", [("calllam", V("g"), [N(1)]), ("calllam", V("g"), [N(2)]), V("base")]))
    ts.append(T("assign_captured_then_nested_use", [fn("vf", [("x", "int"), ("y", "int")], ("tuple", ["int", "int", "int"]), body)], "vf", ["int", "int"], {"C19"}))
    return ts


def named_default_templates(thorough):
    """C18: named arguments in any order and omitted defaulted parameters == the positional call.
    These are source-level templates (named/default syntax is not part of the R AST): the reference is the
    positional call, expressed in the R AST."""
    ts = []
    arities = [2, 3]
    for n in arities:
        names = ["p%d" % i for i in range(n)]
        for defaults in itertools.product([False, True], repeat=n):
            # defaults must be a suffix? (checked by the compiler: we only generate suffix defaults and let others be skipped)
            for perm in (list(itertools.permutations(range(n))) if (thorough or n == 2) else [tuple(range(n)), tuple(reversed(range(n))), tuple(range(1, n)) + (0,)]):
                for omit in itertools.product([False, True], repeat=n):
                    if any(o and not d for o, d in zip(omit, defaults)):
                        continue
                    ts.append({"n": n, "names": names, "defaults": defaults, "perm": perm, "omit": omit})
    return ts
