"""Translation validation of one template: bytecode paths (engine S, compiler output) x reference paths (R)."""
import time

import z3

import api
import bytecode
import refsem as R
from svm import I, InternalFault, Unsupported, Val, to_tokens


# ---------------------------------------------------------------- dual construction of inputs
class Dual:
    """builds the S value and a factory for the R value of one argument from the same fresh leaves"""

    def __init__(self, inp):
        self.inp = inp

    def make(self, spec):
        inp = self.inp
        if spec == "int":
            v = inp.make("int")
            t = v.v
            return v, (lambda: t)
        if spec == "bool":
            v = inp.make("bool")
            t = v.v
            return v, (lambda: t)
        k = spec[0]
        if k == "array":  # ('array', elem_spec, n)
            parts = [self.make(spec[1]) for _ in range(spec[2])]
            val = Val("Array", inp.st.alloc(("Array", [p[0] for p in parts])))
            return val, (lambda: R.RArr([p[1]() for p in parts]))
        if k == "tuple":
            parts = [self.make(s) for s in spec[1]]
            val = Val("Struct", inp.st.alloc(("Struct", [p[0] for p in parts])))
            return val, (lambda: R.RTuple([p[1]() for p in parts]))
        if k == "struct":  # ('struct', name, [specs])
            parts = [self.make(s) for s in spec[2]]
            val = Val("Struct", inp.st.alloc(("Struct", [p[0] for p in parts])))
            name = spec[1]
            return val, (lambda: R.RStruct(name, [p[1]() for p in parts]))
        if k == "variant":  # ('variant', kind, payload_spec_or_None) kind in some/none/ok/err
            kind = spec[1]
            tag = {"some": 0, "none": 1, "ok": 0, "err": 1}[kind]
            if spec[2] is None:
                val = Val("Variant", inp.st.alloc(("Variant", tag, inp.make("void"))))
                return val, (lambda: R.RVariant(kind, R.NIL))
            pv, pf = self.make(spec[2])
            val = Val("Variant", inp.st.alloc(("Variant", tag, pv)))
            return val, (lambda: R.RVariant(kind, pf()))
        raise ValueError(spec)


def literal(spec, model_vals):
    """Abra literal from model values (iterator over leaves in creation order)"""
    if spec == "int":
        v = next(model_vals)
        v = v - (1 << 64) if v >= (1 << 63) else v
        return "(-9223372036854775807 - 1)" if v == -(1 << 63) else ("(%d)" % v if v < 0 else str(v))
    if spec == "bool":
        return "true" if next(model_vals) else "false"
    k = spec[0]
    if k == "array":
        return "[" + ", ".join(literal(spec[1], model_vals) for _ in range(spec[2])) + "]"
    if k == "tuple":
        return "(" + ", ".join(literal(s, model_vals) for s in spec[1]) + ")"
    if k == "struct":
        return "%s(%s)" % (spec[1], ", ".join(literal(s, model_vals) for s in spec[2]))
    if k == "variant":
        pre = "option." if spec[1] in ("some", "none") else "result."
        return pre + spec[1] + ("(%s)" % literal(spec[2], model_vals) if spec[2] is not None else "")
    raise ValueError(spec)


def dummy(spec):
    return literal(spec, iter(lambda: 0, 1))


# ---------------------------------------------------------------- value comparison
def same_value(rv, sv, st):
    """z3 Bool: reference value rv equals the S value sv (in state st); shape mismatch -> False"""
    if rv is R.NIL:
        return z3.BoolVal(sv.tag == "Int")
    if z3.is_expr(rv):
        if z3.is_bool(rv):
            return (sv.v == rv) if sv.tag == "Bool" else z3.BoolVal(False)
        return (sv.v == rv) if sv.tag == "Int" else z3.BoolVal(False)
    if isinstance(rv, R.RTuple):
        if sv.tag != "Struct":
            return z3.BoolVal(False)
        fields = st.heap[sv.v][1]
        live = [x for x in rv.elems if x is not R.NIL]  # void components are erased in the VM representation
        if len(live) != len(fields):
            return z3.BoolVal(False)
        return z3.And(*[same_value(a, b, st) for a, b in zip(live, fields)]) if live else z3.BoolVal(True)
    if isinstance(rv, R.RStruct):
        if sv.tag != "Struct":
            return z3.BoolVal(False)
        fields = st.heap[sv.v][1]
        live = [x for x in rv.fields if x is not R.NIL]
        if len(live) != len(fields):
            return z3.BoolVal(False)
        return z3.And(*[same_value(a, b, st) for a, b in zip(live, fields)]) if live else z3.BoolVal(True)
    if isinstance(rv, R.RArr):
        if sv.tag != "Array":
            return z3.BoolVal(False)
        elems = st.heap[sv.v][1]
        if len(elems) != len(rv.elems):
            return z3.BoolVal(False)
        return z3.And(*[same_value(a, b, st) for a, b in zip(rv.elems, elems)]) if elems else z3.BoolVal(True)
    if isinstance(rv, R.RVariant):
        if sv.tag != "Variant":
            return z3.BoolVal(False)
        o = st.heap[sv.v]
        tag = {"some": 0, "none": 1, "ok": 0, "err": 1}[rv.kind]
        if o[1] != tag:
            return z3.BoolVal(False)
        return same_value(rv.payload, o[2], st)
    if isinstance(rv, R.RClosure):
        return z3.BoolVal(sv.tag == "Struct")
    raise ValueError(rv)


def same_output(r_out, s_out, st):
    """printed ints: R records the value terms; S records rendered strings `itoa(t)` + newline"""
    if len(r_out) != len(s_out):
        return z3.BoolVal(False)
    conj = []
    for rv, ss in zip(r_out, s_out):
        toks = to_tokens(ss)
        if len(toks) == 2 and toks[0][0] == "itoa" and toks[1] == ("lit", b"\n") and z3.is_bv(rv):
            conj.append(toks[0][1] == rv)
        elif len(toks) == 1 and toks[0][0] == "lit" and z3.is_bv(rv) and z3.is_bv_value(z3.simplify(rv)):
            conj.append(z3.BoolVal(toks[0][1] == (str(z3.simplify(rv).as_signed_long()) + "\n").encode()))
        else:
            return z3.BoolVal(False)
    return z3.And(*conj) if conj else z3.BoolVal(True)


def render(rv, model):
    """documented text of a reference value under a model (for the real-VM replay)"""
    if rv is R.NIL:
        return "nil"
    if z3.is_expr(rv):
        v = model.eval(rv, model_completion=True)
        if z3.is_bool(rv):
            return "true" if z3.is_true(v) else "false"
        return str(v.as_signed_long())
    if isinstance(rv, R.RTuple):
        return "(" + ", ".join(render(x, model) for x in rv.elems) + ")"
    if isinstance(rv, R.RArr):
        return "[ " + ", ".join(render(x, model) for x in rv.elems) + " ]"
    if isinstance(rv, R.RVariant):
        return rv.kind + ("(" + render(rv.payload, model) + ")" if rv.kind != "none" else "")
    return "?"


# ---------------------------------------------------------------- one template
class Result:
    def __init__(self):
        self.status = "holds"  # holds | violated | inconclusive | skipped
        self.detail = ""
        self.s_paths = self.r_paths = self.pairs = self.queries = 0
        self.solver_s = 0.0
        self.replay = None
        self.source = ""


def source_of(funcs, entry, specs, structs=None, extra_decl=""):
    src = extra_decl
    for name, fields in (structs or {}).items():
        src += "type %s = {\n%s\n}\n" % (name, "\n".join("  %s: %s" % (n, R.type_str(t)) for n, t in fields))
    for f in funcs:
        src += R.print_func(f)
    src += "%s(%s)\n" % (entry, ", ".join(dummy(s) for s in specs))
    return src


def validate(funcs, entry, specs, structs=None, no_opt=False, prog=None, max_paths=400, printable=True):
    res = Result()
    src = source_of(funcs, entry, specs, structs)
    res.source = src
    try:
        prog = prog or bytecode.compile_source(src, no_opt=no_opt)
    except bytecode.CompileError as e:
        res.status, res.detail = "compile_error", str(e)[-600:]
        res.crash = "panicked at" in str(e)
        return res
    holder = {}

    def build(inp):
        d = Dual(inp)
        parts = [d.make(s) for s in specs]
        holder["rfac"] = [p[1] for p in parts]
        return [p[0] for p in parts]
    t0 = time.time()
    try:
        m, done, inp = api.call(prog, entry, build, max_steps=30000, max_paths=max_paths)
    except InternalFault as e:
        res.status, res.detail = "violated", "internal VM fault reachable in the compiled program: %s" % e
        res.fault = True
        return res
    except Unsupported as e:
        res.status, res.detail = "skipped", "outside the S model: %s" % e
        return res
    res.queries += m.queries
    res.solver_s += m.solver_s
    s_paths = [s for s in done if s.status != "dead"]
    res.s_paths = len(s_paths)
    ref = R.Ref(funcs, structs=structs, max_paths=max_paths)
    try:
        rf = holder["rfac"]
        r_paths = ref.run(entry, lambda: [f() for f in rf], list(inp.constraints))
    except ValueError as e:
        res.status, res.detail = "skipped", "template outside R: %s" % e
        return res
    res.queries += ref.queries
    res.r_paths = len(r_paths)
    if m.bound_hit or any(r[1] == "bound" for r in r_paths):
        res.status, res.detail = "inconclusive", "path/step bound reached (S paths %d, R paths %d)" % (len(s_paths), len(r_paths))
        return res
    solver = z3.Solver()
    solver.set("timeout", 30000)
    for rc, rstatus, rval, rout in r_paths:
        for st in s_paths:
            solver.push()
            solver.add(*rc, *st.cond)
            t1 = time.time()
            joint = solver.check()
            res.queries += 1
            if joint == z3.unsat:
                solver.pop()
                res.solver_s += time.time() - t1
                continue
            res.pairs += 1
            bad = None
            if rstatus != st.status:
                bad = "reference ends with %s, compiled program with %s" % (rstatus, st.status)
                mdl = solver.model()
            else:
                if rstatus == "done":
                    sv = api.result_value(st)
                    eq = same_value(rval, sv, st) if sv is not None else z3.BoolVal(rval is R.NIL)
                    if rval is R.NIL:
                        eq = z3.BoolVal(True)
                else:
                    eq = z3.BoolVal(True)
                eq = z3.And(eq, same_output(rout, st.out, st))
                solver.add(z3.Not(eq))
                r2 = solver.check()
                res.queries += 1
                if r2 == z3.sat:
                    bad = "same path, different final value or output"
                    mdl = solver.model()
                elif r2 == z3.unknown:
                    res.status, res.detail = "inconclusive", "solver unknown"
            res.solver_s += time.time() - t1
            solver.pop()
            if bad:
                vals = []
                for v in inp.leaves:
                    x = mdl.eval(v, model_completion=True)
                    vals.append(z3.is_true(x) if z3.is_bool(v) else x.as_long())
                res.status = "violated"
                res.detail = bad
                res.model_vals = vals
                # expected behaviour under the model, for the replay
                res.expected = (rstatus, render(rval, mdl) if (rstatus == "done" and rval is not None) else None,
                                [render(o, mdl) for o in rout])
                res.got = st.status
                return res
    return res


def replay(res, funcs, entry, specs, structs=None, printable=True):
    """run the counterexample on the REAL VM; returns (reproduced, text, real_result)"""
    it = iter(res.model_vals)
    args = ", ".join(literal(s, it) for s in specs)
    src = ""
    for name, fields in (structs or {}).items():
        src += "type %s = {\n%s\n}\n" % (name, "\n".join("  %s: %s" % (n, R.type_str(t)) for n, t in fields))
    for f in funcs:
        src += R.print_func(f)
    ret_t = [f for f in funcs if f[0] == entry][0][2]
    if ret_t == "void" or not printable:
        src += "%s(%s)\nprintln(\"<end>\")\n" % (entry, args)
    else:
        src += "let vf_result = %s(%s)\nprintln(\"<result>\" .. vf_result)\n" % (entry, args)
    real = bytecode.run_source(src)
    exp_status, exp_val, exp_out = res.expected
    want_out = "".join(o + "\n" for o in exp_out)
    if exp_status == "done":
        want_out += ("<result>%s\n" % exp_val) if (ret_t != "void" and printable) else "<end>\n"
    got_status = real.get("status")
    reproduced = (got_status != exp_status) or (real.get("output") != want_out and exp_status == "done") or \
                 (exp_status != "done" and not real.get("output", "").startswith(want_out))
    return reproduced, src, real, want_out
