"""Reference semantics R: a symbolic interpreter of a small typed AST (the template language), written from the
language reference (book/src/language_reference), never looking at bytecode.  The same AST is printed to Abra
source and compiled by the real compiler; engine S executes the compiler's output; C02/C05/C18/C19/C23 compare.

Semantics implemented here (the oracle):
  * operands, call arguments, tuple/array elements are evaluated left to right; `and` / `or` short-circuit
  * integer + - * are exact or fail with IntegerOverflowUnderflow; / truncates, % is Euclidean; a zero divisor fails
    with DivisionByZero; MIN / -1 fails with IntegerOverflowUnderflow; ^ with exponent 0..8 exact or overflow
  * blocks scope their bindings; inner bindings shadow outer ones; `var` can be reassigned
  * arrays and structs have reference semantics; tuples are values
  * lambdas capture the current VALUES of the variables they (or lambdas nested in them) use, at creation
  * `e?` yields the payload of some/ok or returns none/err from the enclosing function; `e!` yields the payload or panics
  * break / continue / return unwind to the loop / function; runtime errors carry only their kind
"""
import itertools

import z3

W = 64
I = lambda n: z3.BitVecVal(n, W)  # noqa: E731
MIN = -(1 << 63)


# ---------------------------------------------------------------- AST (plain tuples)
# types: 'int' 'bool' 'void' ('tuple',[t]) ('array',t) ('option',t) ('result',t,e) ('fn',[t],t) ('struct',name)
# expr:
#   ('int', n) ('bool', b) ('nil',) ('var', x) ('bin', op, a, b) ('un', op, a) ('if', c, a, b) ('call', f, [args])
#   ('block', [stmts], expr_or_None) ('tuple', [es]) ('arr', [es]) ('index', a, i) ('len', a) ('lam', [(x,t)], body)
#   ('calllam', f, [args]) ('some', e) ('none', t) ('ok', e, errt) ('err', e, okt) ('try', e) ('unwrap', e)
#   ('proj', e, i, n)  tuple projection by destructuring   ('field', e, name) ('new', sname, [es])
#   ('is_some', e) ('push', a, e) [void]
# stmt:
#   ('let', x, e) ('var', x, e) ('assign', lhs, op, e) ('while', c, [stmts]) ('forrange', x, e, [stmts])
#   ('forarr', x, a, [stmts]) ('break',) ('continue',) ('return', e_or_None) ('expr', e) ('print', e)
#   ('lettuple', [xs], e)
# func: (name, [(x, t)], ret_t, body_expr)   body_expr is usually a ('block', ...)


def type_str(t):
    if isinstance(t, str):
        return t
    k = t[0]
    if k == "tuple":
        return "(" + ", ".join(type_str(x) for x in t[1]) + ")"
    if k == "array":
        return "array<%s>" % type_str(t[1])
    if k == "option":
        return "option<%s>" % type_str(t[1])
    if k == "result":
        return "result<%s, %s>" % (type_str(t[1]), type_str(t[2]))
    if k == "fn":
        if len(t[1]) == 1:
            return "%s -> %s" % (type_str(t[1][0]), type_str(t[2]))
        return "(%s) -> %s" % (", ".join(type_str(x) for x in t[1]), type_str(t[2]))
    if k == "struct":
        return t[1]
    raise ValueError(t)


BINOPS = {"+": "+", "-": "-", "*": "*", "/": "/", "%": "%", "^": "^", "<": "<", "<=": "<=", ">": ">", ">=": ">=", "==": "==", "!=": "!=",
          "and": "and", "or": "or"}


def pe(e, ind=0):
    """print an expression as Abra source (fully parenthesised operands)"""
    k = e[0]
    pad = "  " * ind
    if k == "int":
        n = e[1]
        if n == MIN:
            return "(-9223372036854775807 - 1)"
        return "(%d)" % n if n < 0 else str(n)
    if k == "bool":
        return "true" if e[1] else "false"
    if k == "nil":
        return "nil"
    if k == "var":
        return e[1]
    if k == "bin":
        return "(%s %s %s)" % (pe(e[2], ind), BINOPS[e[1]], pe(e[3], ind))
    if k == "un":
        return "(%s %s)" % ("-" if e[1] == "-" else "not", pe(e[2], ind))
    if k == "if":
        return "if %s {\n%s  %s\n%s} else {\n%s  %s\n%s}" % (pe(e[1], ind), pad, pe(e[2], ind + 1), pad, pad, pe(e[3], ind + 1), pad)
    if k == "call":
        return "%s(%s)" % (e[1], ", ".join(pe(a, ind) for a in e[2]))
    if k == "calllam":
        return "%s(%s)" % (pe(e[1], ind), ", ".join(pe(a, ind) for a in e[2]))
    if k == "block":
        lines = [ps(s, ind + 1) for s in e[1]]
        if e[2] is not None:
            lines.append("  " * (ind + 1) + pe(e[2], ind + 1))
        return "{\n" + "\n".join(lines) + "\n" + pad + "}"
    if k == "tuple":
        return "(" + ", ".join(pe(a, ind) for a in e[1]) + ")"
    if k == "arr":
        return "[" + ", ".join(pe(a, ind) for a in e[1]) + "]"
    if k == "index":
        return "%s[%s]" % (pe(e[1], ind), pe(e[2], ind))
    if k == "len":
        return "%s.len()" % pe(e[1], ind)
    if k == "push":
        return "%s.push(%s)" % (pe(e[1], ind), pe(e[2], ind))
    if k == "lam":
        return "(%s) -> %s" % (", ".join("%s: %s" % (x, type_str(t)) for x, t in e[1]), pe(e[2], ind))
    if k == "some":
        return "option.some(%s)" % pe(e[1], ind)
    if k == "none":
        return "option.none"
    if k == "ok":
        return "result.ok(%s)" % pe(e[1], ind)
    if k == "err":
        return "result.err(%s)" % pe(e[1], ind)
    if k == "try":
        return "%s?" % pe(e[1], ind)
    if k == "unwrap":
        return "%s!" % pe(e[1], ind)
    if k == "is_some":
        return "%s.is_some()" % pe(e[1], ind)
    if k == "field":
        return "%s.%s" % (pe(e[1], ind), e[2])
    if k == "new":
        return "%s(%s)" % (e[1], ", ".join(pe(a, ind) for a in e[2]))
    raise ValueError(e)


def ps(s, ind=0):
    pad = "  " * ind
    k = s[0]
    if k in ("let", "var"):
        return "%s%s %s%s = %s" % (pad, k, s[1], (": " + type_str(s[3])) if len(s) > 3 and s[3] else "", pe(s[2], ind))
    if k == "lettuple":
        return "%slet (%s) = %s" % (pad, ", ".join(s[1]), pe(s[2], ind))
    if k == "assign":
        return "%s%s %s %s" % (pad, pe(s[1], ind), s[2], pe(s[3], ind))
    if k == "while":
        return "%swhile %s {\n%s\n%s}" % (pad, pe(s[1], ind), "\n".join(ps(x, ind + 1) for x in s[2]), pad)
    if k == "forrange":
        return "%sfor %s in %s {\n%s\n%s}" % (pad, s[1], pe(s[2], ind), "\n".join(ps(x, ind + 1) for x in s[3]), pad)
    if k == "forarr":
        return "%sfor %s in %s {\n%s\n%s}" % (pad, s[1], pe(s[2], ind), "\n".join(ps(x, ind + 1) for x in s[3]), pad)
    if k == "break":
        return pad + "break"
    if k == "continue":
        return pad + "continue"
    if k == "return":
        return pad + ("return " + pe(s[1], ind) if s[1] is not None else "return")
    if k == "expr":
        return pad + pe(s[1], ind)
    if k == "print":
        return "%sprintln(%s)" % (pad, pe(s[1], ind))
    raise ValueError(s)


def print_func(f):
    name, params, ret, body = f
    return "fn %s(%s) -> %s %s\n" % (name, ", ".join("%s: %s" % (x, type_str(t)) for x, t in params), type_str(ret), pe(body, 0))


# ---------------------------------------------------------------- values
class RArr:
    __slots__ = ("elems",)

    def __init__(self, elems):
        self.elems = elems


class RStruct:
    __slots__ = ("name", "fields")

    def __init__(self, name, fields):
        self.name, self.fields = name, fields


class RTuple:
    __slots__ = ("elems",)

    def __init__(self, elems):
        self.elems = tuple(elems)


class RVariant:
    __slots__ = ("kind", "payload")  # kind in some/none/ok/err

    def __init__(self, kind, payload):
        self.kind, self.payload = kind, payload


class RClosure:
    __slots__ = ("params", "body", "env")

    def __init__(self, params, body, env):
        self.params, self.body, self.env = params, body, env


NIL = ("nilvalue",)


class World:
    """one path of the reference execution"""

    def __init__(self, cond=None, out=None):
        self.cond = list(cond or [])
        self.out = list(out or [])
        self.steps = 0

    def fork(self):
        w = World(self.cond, self.out)
        w.steps = self.steps
        return w


class Signal(Exception):
    pass


class Break(Signal):
    pass


class Continue(Signal):
    pass


class Return(Signal):
    def __init__(self, v):
        self.v = v


class RuntimeErr(Signal):
    def __init__(self, kind):
        self.kind = kind


class OutOfBound(Exception):
    pass


class Infeasible(Exception):
    pass


class Ref:
    """Drives the exploration: evaluates the program once per path, replaying recorded branch decisions."""

    def __init__(self, funcs, structs=None, max_paths=600, max_steps=3000, solver_timeout_ms=20000):
        self.funcs = {f[0]: f for f in funcs}
        self.structs = structs or {}
        self.max_paths, self.max_steps = max_paths, max_steps
        self.solver = z3.Solver()
        self.solver.set("timeout", solver_timeout_ms)
        self.queries = 0

    def feasible(self, conds):
        self.solver.push()
        self.solver.add(*conds)
        r = self.solver.check()
        self.solver.pop()
        self.queries += 1
        return r != z3.unsat

    # ---- path enumeration by decision replay
    def run(self, fname, args_factory, constraints):
        """args_factory() builds fresh (mutable) argument values for every explored path.
        returns list of (cond list, status, value, outputs); status 'done' or an error kind or 'bound'"""
        results = []
        pending = [[]]  # decision prefixes to explore
        while pending:
            if len(results) >= self.max_paths:
                results.append(([z3.BoolVal(True)], "bound", None, []))
                break
            prefix = pending.pop()
            self.decisions = list(prefix)
            self.pos = 0
            self.new_branches = []
            w = World(constraints)
            self.w = w
            try:
                try:
                    v = self.call_func(fname, list(args_factory()))
                    status = "done"
                except RuntimeErr as e:
                    v, status = None, e.kind
                except Return as r:
                    v, status = r.v, "done"
                results.append((list(w.cond), status, v, list(w.out)))
            except OutOfBound:
                results.append((list(w.cond), "bound", None, list(w.out)))
            except Infeasible:
                pass
            for alt in self.new_branches:
                pending.append(alt)
        return results

    def decide(self, cond):
        """branch on a z3 Bool; returns the python bool chosen on this path"""
        cond = z3.simplify(cond)
        if z3.is_true(cond):
            return True
        if z3.is_false(cond):
            return False
        w = self.w
        if self.pos < len(self.decisions):
            d = self.decisions[self.pos]
            self.pos += 1
            w.cond.append(cond if d else z3.Not(cond))
            return d
        t_ok = self.feasible(w.cond + [cond])
        f_ok = self.feasible(w.cond + [z3.Not(cond)])
        if t_ok and f_ok:
            self.new_branches.append(self.decisions[: self.pos] + [False])
            self.decisions.append(True)
            self.pos += 1
            w.cond.append(cond)
            return True
        if t_ok:
            self.decisions.append(True)
            self.pos += 1
            w.cond.append(cond)
            return True
        if f_ok:
            self.decisions.append(False)
            self.pos += 1
            w.cond.append(z3.Not(cond))
            return False
        raise Infeasible()

    def tick(self):
        self.w.steps += 1
        if self.w.steps > self.max_steps:
            raise OutOfBound()

    # ---- evaluation
    def call_func(self, fname, args):
        name, params, ret, body = self.funcs[fname]
        env = {x: [v] for (x, _t), v in zip(params, args)}
        try:
            return self.ev(body, [env])
        except Return as r:
            return r.v

    def lookup(self, scopes, x):
        for sc in reversed(scopes):
            if x in sc:
                return sc[x]
        raise KeyError(x)

    def ev(self, e, sc):
        self.tick()
        k = e[0]
        if k == "int":
            return I(e[1])
        if k == "bool":
            return z3.BoolVal(e[1])
        if k == "nil":
            return NIL
        if k == "var":
            return self.lookup(sc, e[1])[0]
        if k == "bin":
            op = e[1]
            if op in ("and", "or"):
                a = self.ev(e[2], sc)
                if self.decide(a):
                    return z3.BoolVal(True) if op == "or" else self.ev(e[3], sc)
                return self.ev(e[3], sc) if op == "or" else z3.BoolVal(False)
            a = self.ev(e[2], sc)
            b = self.ev(e[3], sc)
            return self.binop(op, a, b)
        if k == "un":
            a = self.ev(e[2], sc)
            if e[1] == "not":
                return z3.Not(a)
            return self.binop("-", I(0), a)
        if k == "if":
            c = self.ev(e[1], sc)
            return self.ev(e[2], sc) if self.decide(c) else self.ev(e[3], sc)
        if k == "call":
            args = [self.ev(a, sc) for a in e[2]]
            return self.call_func(e[1], args)
        if k == "calllam":
            f = self.ev(e[1], sc)
            args = [self.ev(a, sc) for a in e[2]]
            # every call starts from the values captured at creation (fresh cells): an assignment to a captured variable inside the
            # body changes the call's own copy only (the reference manual forbids such assignments, the checker accepts them)
            env = {x: [cell[0]] for x, cell in f.env.items()}
            for (x, _t), v in zip(f.params, args):
                env[x] = [v]
            try:
                return self.ev(f.body, [env])
            except Return as r:
                return r.v
        if k == "block":
            inner = sc + [{}]
            for s in e[1]:
                self.st(s, inner)
            return self.ev(e[2], inner) if e[2] is not None else NIL
        if k == "tuple":
            return RTuple([self.ev(a, sc) for a in e[1]])
        if k == "arr":
            return RArr([self.ev(a, sc) for a in e[1]])
        if k == "new":
            return RStruct(e[1], [self.ev(a, sc) for a in e[2]])
        if k == "field":
            s = self.ev(e[1], sc)
            names = [n for n, _ in self.structs[s.name]]
            return s.fields[names.index(e[2])]
        if k == "index":
            a = self.ev(e[1], sc)
            i = self.ev(e[2], sc)
            return a.elems[self.index_of(a, i)]
        if k == "len":
            return I(len(self.ev(e[1], sc).elems))
        if k == "push":
            a = self.ev(e[1], sc)
            v = self.ev(e[2], sc)
            a.elems = a.elems + [v]
            return NIL
        if k == "lam":
            # capture the current VALUES of every free variable (snapshot: fresh cells)
            env = {}
            for scope in sc:
                for x, cell in scope.items():
                    env[x] = [cell[0]]
            return RClosure(e[1], e[2], env)
        if k == "some":
            return RVariant("some", self.ev(e[1], sc))
        if k == "none":
            return RVariant("none", NIL)
        if k == "ok":
            return RVariant("ok", self.ev(e[1], sc))
        if k == "err":
            return RVariant("err", self.ev(e[1], sc))
        if k == "is_some":
            return z3.BoolVal(self.ev(e[1], sc).kind == "some")
        if k == "try":
            v = self.ev(e[1], sc)
            if v.kind in ("some", "ok"):
                return v.payload
            raise Return(RVariant(v.kind, v.payload))
        if k == "unwrap":
            v = self.ev(e[1], sc)
            if v.kind in ("some", "ok"):
                return v.payload
            raise RuntimeErr("Panic")
        raise ValueError(e)

    def index_of(self, a, i):
        n = len(a.elems)
        i = z3.simplify(i)
        if z3.is_bv_value(i):
            k = i.as_signed_long()
            if 0 <= k < n:
                return k
            raise RuntimeErr("ArrayOutOfBounds")
        for k in range(n):
            if self.decide(i == I(k)):
                return k
        raise RuntimeErr("ArrayOutOfBounds")

    def binop(self, op, a, b):
        if op in ("==", "!="):
            r = self.equal(a, b)
            return r if op == "==" else z3.Not(r)
        if op in ("<", "<=", ">", ">="):
            return {"<": a < b, "<=": a <= b, ">": a > b, ">=": a >= b}[op]
        if op == "+":
            if self.decide(z3.Not(z3.And(z3.BVAddNoOverflow(a, b, True), z3.BVAddNoUnderflow(a, b)))):
                raise RuntimeErr("IntegerOverflowUnderflow")
            return a + b
        if op == "-":
            if self.decide(z3.Not(z3.And(z3.BVSubNoOverflow(a, b), z3.BVSubNoUnderflow(a, b, True)))):
                raise RuntimeErr("IntegerOverflowUnderflow")
            return a - b
        if op == "*":
            if self.decide(z3.Not(z3.And(z3.BVMulNoOverflow(a, b, True), z3.BVMulNoUnderflow(a, b)))):
                raise RuntimeErr("IntegerOverflowUnderflow")
            return a * b
        if op == "/":
            if self.decide(b == I(0)):
                raise RuntimeErr("DivisionByZero")
            if self.decide(z3.And(a == I(MIN), b == I(-1))):
                raise RuntimeErr("IntegerOverflowUnderflow")
            return a / b
        if op == "%":
            if self.decide(b == I(0)):
                raise RuntimeErr("DivisionByZero")
            r = z3.SRem(a, b)
            absb = z3.If(b < 0, -b, b)
            return z3.If(r < 0, r + absb, r)
        if op == "^":
            bs = z3.simplify(b)
            if not z3.is_bv_value(bs):
                raise ValueError("symbolic exponent in a template")
            n = bs.as_signed_long()
            acc = I(1)
            for _ in range(n):
                if self.decide(z3.Not(z3.And(z3.BVMulNoOverflow(acc, a, True), z3.BVMulNoUnderflow(acc, a)))):
                    raise RuntimeErr("IntegerOverflowUnderflow")
                acc = acc * a
            return acc
        raise ValueError(op)

    def equal(self, a, b):
        if isinstance(a, RTuple):
            return z3.And(*[self.equal(x, y) for x, y in zip(a.elems, b.elems)]) if a.elems else z3.BoolVal(True)
        if isinstance(a, RArr):
            if len(a.elems) != len(b.elems):
                return z3.BoolVal(False)
            return z3.And(*[self.equal(x, y) for x, y in zip(a.elems, b.elems)]) if a.elems else z3.BoolVal(True)
        if a is NIL:
            return z3.BoolVal(True)
        return a == b

    def st(self, s, sc):
        self.tick()
        k = s[0]
        if k in ("let", "var"):
            sc[-1][s[1]] = [self.ev(s[2], sc)]
        elif k == "lettuple":
            v = self.ev(s[2], sc)
            for x, c in zip(s[1], v.elems):
                sc[-1][x] = [c]
        elif k == "assign":
            lhs, op, rhs = s[1], s[2], s[3]
            if lhs[0] == "var":
                cell = self.lookup(sc, lhs[1])
                if op == "=":
                    cell[0] = self.ev(rhs, sc)
                else:
                    cur = cell[0]
                    cell[0] = self.binop(op[0], cur, self.ev(rhs, sc))
            elif lhs[0] == "index":
                a = self.ev(lhs[1], sc)
                i = self.ev(lhs[2], sc)
                if op == "=":
                    v = self.ev(rhs, sc)
                    kk = self.index_of(a, i)
                else:
                    kk = self.index_of(a, i)
                    v = self.binop(op[0], a.elems[kk], self.ev(rhs, sc))
                ne = list(a.elems)
                ne[kk] = v
                a.elems = ne
            elif lhs[0] == "field":
                st_ = self.ev(lhs[1], sc)
                names = [n for n, _ in self.structs[st_.name]]
                fi = names.index(lhs[2])
                v = self.ev(rhs, sc) if op == "=" else self.binop(op[0], st_.fields[fi], self.ev(rhs, sc))
                nf = list(st_.fields)
                nf[fi] = v
                st_.fields = nf
            else:
                raise ValueError(lhs)
        elif k == "while":
            while True:
                self.tick()
                if not self.decide(self.ev(s[1], sc)):
                    break
                try:
                    inner = sc + [{}]
                    for x in s[2]:
                        self.st(x, inner)
                except Break:
                    break
                except Continue:
                    continue
        elif k == "forrange":
            n = z3.simplify(self.ev(s[2], sc))
            if not z3.is_bv_value(n):
                raise ValueError("symbolic range bound in a template")
            for i in range(max(0, n.as_signed_long())):
                try:
                    inner = sc + [{s[1]: [I(i)]}]
                    for x in s[3]:
                        self.st(x, inner)
                except Break:
                    break
                except Continue:
                    continue
        elif k == "forarr":
            a = self.ev(s[2], sc)
            i = 0
            while i < len(a.elems):  # the array may grow/shrink while iterating: index-based like the prelude iterator
                try:
                    inner = sc + [{s[1]: [a.elems[i]]}]
                    i += 1
                    for x in s[3]:
                        self.st(x, inner)
                except Break:
                    break
                except Continue:
                    continue
        elif k == "break":
            raise Break()
        elif k == "continue":
            raise Continue()
        elif k == "return":
            raise Return(self.ev(s[1], sc) if s[1] is not None else NIL)
        elif k == "expr":
            self.ev(s[1], sc)
        elif k == "print":
            self.w.out.append(self.ev(s[1], sc))
        else:
            raise ValueError(s)
