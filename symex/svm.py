"""Engine S: symbolic executor for Abra bytecode (the output of the real compiler).

Values carry a concrete runtime tag and a payload that is a z3 term (ints: 64-bit bit-vectors,
bools: Bool, floats: 64-bit patterns) or a heap id.  Heap objects have concrete shape per path
(array lengths, variant tags); a symbolic index forks over the concrete length.  Control flow forks
on symbolic JumpIf conditions and on the error condition of every checked instruction; each state
carries its path condition; feasibility is decided by one incremental z3 solver (push/pop).
Every instruction checks the runtime tag of each operand and the stack discipline: a violation is
an InternalFault (the oracle of C01 at this level).
"""
import z3

W = 64
I = lambda n: z3.BitVecVal(n, W)  # noqa: E731
MIN = -(1 << 63)
MAX = (1 << 63) - 1


class InternalFault(Exception):
    """wrong runtime tag / stack underflow / bad frame: never allowed for an accepted program"""


class Unsupported(Exception):
    """construct outside the model (tasks, channels, FFI, unbounded strings...)"""


class Val:
    __slots__ = ("tag", "v")

    def __init__(self, tag, v):
        self.tag, self.v = tag, v

    def __repr__(self):
        return "%s(%s)" % (self.tag, self.v)


def vint(x):
    return Val("Int", x if z3.is_expr(x) else I(x))


def vbool(x):
    return Val("Bool", x if z3.is_expr(x) else z3.BoolVal(bool(x)))


def vfloat_bits(x):
    return Val("Float", x if z3.is_expr(x) else I(x))


NIL = vint(0)


# ---------------------------------------------------------------- strings
class BStr:
    """bounded byte string: length (python int or z3 BV64) and a list of byte terms (BV8)"""

    def __init__(self, length, bytes_):
        self.len, self.bytes = length, bytes_

    @staticmethod
    def lit(b):
        return BStr(len(b), [z3.BitVecVal(x, 8) for x in b])

    def is_concrete(self):
        return isinstance(self.len, int) and all(z3.is_bv_value(b) for b in self.bytes[: self.len])

    def concrete(self):
        return bytes(b.as_long() for b in self.bytes[: self.len])

    def len_term(self):
        return I(self.len) if isinstance(self.len, int) else self.len


class TStr:
    """token string for rendering: list of ('lit', bytes) | ('itoa', bv) | ('ftoa', bits) | ('bstr', BStr)"""

    def __init__(self, toks):
        out = []
        for t in toks:
            if t[0] == "lit" and not t[1]:
                continue
            if out and out[-1][0] == "lit" and t[0] == "lit":
                out[-1] = ("lit", out[-1][1] + t[1])
            else:
                out.append(t)
        self.toks = out


def to_tokens(s):
    if isinstance(s, TStr):
        return list(s.toks)
    if s.is_concrete():
        return [("lit", s.concrete())]
    return [("bstr", s)]


def _sym_concat(a, b):
    """byte-level concatenation of two bounded strings with symbolic lengths"""
    n = len(a.bytes) + len(b.bytes)
    if n > 16:
        raise Unsupported("symbolic string longer than 16 bytes")
    la = a.len_term()
    out = []
    for k in range(n):
        e = z3.BitVecVal(0, 8)
        for j in range(len(b.bytes) - 1, -1, -1):
            if k - j >= 0:
                e = z3.If(la == I(k - j), b.bytes[j], e)
        if k < len(a.bytes):
            e = z3.If(z3.UGT(la, I(k)), a.bytes[k], e)
        out.append(e)
    return BStr(la + b.len_term(), out)


def str_concat(a, b):
    """concrete-length operands merge into one bounded string; anything else stays a token list (rendering)"""
    if isinstance(a, BStr) and isinstance(b, BStr) and isinstance(a.len, int) and isinstance(b.len, int):
        return BStr(a.len + b.len, a.bytes[: a.len] + b.bytes[: b.len])
    return TStr(to_tokens(a) + to_tokens(b))


def flatten(s):
    """TStr made only of literal text and bounded strings -> one bounded string (for comparisons)"""
    if isinstance(s, BStr):
        return s
    acc = BStr(0, [])
    for t in s.toks:
        if t[0] == "lit":
            nxt = BStr.lit(t[1])
        elif t[0] == "bstr":
            nxt = t[1]
        else:
            raise Unsupported("comparison of a string containing a rendered number")
        if isinstance(acc.len, int) and isinstance(nxt.len, int):
            acc = BStr(acc.len + nxt.len, acc.bytes[: acc.len] + nxt.bytes[: nxt.len])
        elif isinstance(acc.len, int):
            acc = BStr(I(acc.len) + nxt.len_term(), acc.bytes[: acc.len] + nxt.bytes)
        else:
            acc = _sym_concat(acc, nxt)
    return acc


def _byte(s, k):
    return s.bytes[k] if k < len(s.bytes) else z3.BitVecVal(0, 8)


def str_eq(a, b):
    """z3 Bool: byte-wise equality"""
    if isinstance(a, TStr) or isinstance(b, TStr):
        ta, tb = to_tokens(a), to_tokens(b)
        if len(ta) == len(tb) and all(x[0] == y[0] and (x[1] is y[1] or (x[0] == "lit" and x[1] == y[1]) or
                                                          (x[0] in ("itoa", "ftoa") and z3.eq(x[1], y[1]))) for x, y in zip(ta, tb)):
            return z3.BoolVal(True)
        a, b = flatten(a), flatten(b)
    n = max(len(a.bytes), len(b.bytes))
    la, lb = a.len_term(), b.len_term()
    conj = [la == lb]
    for k in range(n):
        conj.append(z3.Or(z3.ULE(la, I(k)), _byte(a, k) == _byte(b, k)))
    return z3.And(*conj)


def str_lt(a, b, or_equal):
    """lexicographic byte order a < b (or a <= b)"""
    a, b = flatten(a), flatten(b)
    n = max(len(a.bytes), len(b.bytes))
    la, lb = a.len_term(), b.len_term()
    # first position k where they differ or one ends
    res = z3.ULE(la, lb) if or_equal else z3.ULT(la, lb)  # all compared bytes equal up to min length
    for k in range(n - 1, -1, -1):
        both = z3.And(z3.UGT(la, I(k)), z3.UGT(lb, I(k)))
        ak, bk = _byte(a, k), _byte(b, k)
        res = z3.If(both, z3.If(ak == bk, res, z3.ULT(ak, bk)), z3.ULE(la, lb) if or_equal else z3.ULT(la, lb))
    return res


# ---------------------------------------------------------------- state
class State:
    def __init__(self):
        self.pc = 0
        self.stack = []
        self.base = 0
        self.frames = []  # (ret_pc, base, nargs)
        self.heap = {}  # id -> ("Array", [vals]) | ("Struct", [vals]) | ("Variant", tag, val) | ("String", BStr|TStr)
        self.next_id = 1
        self.cond = []  # path condition (list of z3 Bool)
        self.out = []  # printed strings (BStr / TStr)
        self.steps = 0
        self.status = None  # None running | "done" | error kind | "bound"
        self.trace = []

    def fork(self):
        s = State()
        s.pc, s.base, s.next_id, s.steps = self.pc, self.base, self.next_id, self.steps
        s.stack = list(self.stack)
        s.frames = list(self.frames)
        s.heap = dict(self.heap)
        s.cond = list(self.cond)
        s.out = list(self.out)
        s.status = self.status
        return s

    def alloc(self, obj):
        i = self.next_id
        self.next_id += 1
        self.heap[i] = obj
        return i


class Machine:
    def __init__(self, prog, max_steps=20000, max_paths=512, solver_timeout_ms=20000):
        self.p = prog
        self.max_steps, self.max_paths = max_steps, max_paths
        self.solver = z3.Solver()
        self.solver.set("timeout", solver_timeout_ms)
        self.queries = 0
        self.solver_s = 0.0
        self.finished = []
        self.bound_hit = False
        self.unknown = 0

    # ---- solver
    def feasible(self, conds):
        import time
        self.solver.push()
        self.solver.add(*conds)
        t = time.time()
        r = self.solver.check()
        self.solver_s += time.time() - t
        self.queries += 1
        self.solver.pop()
        if r == z3.unknown:
            self.unknown += 1
            return True
        return r == z3.sat

    def branch(self, st, cond):
        """Returns (state_true|None, state_false|None); forks only if both feasible."""
        cond = z3.simplify(cond)
        if z3.is_true(cond):
            return st, None
        if z3.is_false(cond):
            return None, st
        t_ok = self.feasible(st.cond + [cond])
        f_ok = self.feasible(st.cond + [z3.Not(cond)])
        if t_ok and f_ok:
            s2 = st.fork()
            st.cond.append(cond)
            s2.cond.append(z3.Not(cond))
            return st, s2
        if t_ok:
            return st, None
        if f_ok:
            return None, st
        st.status = "dead"  # the path condition itself became infeasible
        return None, None

    # ---- helpers
    def expect(self, v, tag):
        if v.tag != tag:
            raise InternalFault("expected %s got %s at pc %d (%s)" % (tag, v.tag, self.cur_pc, self.p.instrs[self.cur_pc]))
        return v.v

    def load(self, st, r):
        r = reg_decode(r)
        if r[0] == "top":
            if not st.stack:
                raise InternalFault("stack underflow at pc %d" % self.cur_pc)
            return st.stack.pop()
        idx = st.base + r[1]
        if idx < 0 or idx >= len(st.stack):
            raise InternalFault("register offset %d outside the stack (base %d, len %d) at pc %d" % (r[1], st.base, len(st.stack), self.cur_pc))
        return st.stack[idx]

    def store(self, st, r, v):
        r = reg_decode(r)
        if r[0] == "top":
            st.stack.append(v)
        else:
            idx = st.base + r[1]
            if idx < 0 or idx >= len(st.stack):
                raise InternalFault("register offset %d outside the stack at pc %d" % (r[1], self.cur_pc))
            st.stack[idx] = v

    def pop(self, st):
        if not st.stack:
            raise InternalFault("stack underflow at pc %d" % self.cur_pc)
        return st.stack.pop()

    def fail(self, st, kind):
        st.status = kind
        self.finished.append(st)

    # ---- run
    def run(self, st):
        work = [st]
        while work:
            if len(self.finished) + len(work) > self.max_paths:
                self.bound_hit = True
                for w in work:
                    w.status = "bound"
                    self.finished.append(w)
                return self.finished
            s = work.pop()
            while s.status is None:
                if s.steps >= self.max_steps:
                    s.status = "bound"
                    self.bound_hit = True
                    self.finished.append(s)
                    break
                s.steps += 1
                more = self.step(s)
                if more:
                    work.extend(more)
        return self.finished

    def checked(self, st, result, overflow_cond, kind, dest):
        """fork on an error condition; returns extra states to explore"""
        err, ok = self.branch(st, overflow_cond)
        extra = []
        if err is not None:
            if ok is None:
                self.fail(err, kind)
                return []
            # err and ok are different objects: `st` became the true (error) branch
            self.fail(err, kind)
            self.store(ok, dest, result)
            extra.append(ok)
            return extra
        if ok is not None:
            self.store(ok, dest, result)
        return []

    def step(self, st):
        p = self.p
        if st.pc < 0 or st.pc >= len(p.instrs):
            raise InternalFault("pc %d outside the program" % st.pc)
        self.cur_pc = st.pc
        name, a = p.instrs[st.pc]
        st.pc += 1
        ld, sto, ex = self.load, self.store, self.expect

        def int2(f):
            b = ex(ld(st, a[2]), "Int")
            x = ex(ld(st, a[1]), "Int")
            return f(x, b)

        def int_imm(f):
            x = ex(ld(st, a[1]), "Int")
            return f(x, I(p.ints[a[2]]))

        def arith(op, imm):
            get = int_imm if imm else int2
            if op == "add":
                x, y = get(lambda x, y: (x, y))
                return self.checked(st, vint(x + y), z3.Not(z3.And(z3.BVAddNoOverflow(x, y, True), z3.BVAddNoUnderflow(x, y))), "IntegerOverflowUnderflow", a[0])
            if op == "sub":
                x, y = get(lambda x, y: (x, y))
                return self.checked(st, vint(x - y), z3.Not(z3.And(z3.BVSubNoOverflow(x, y), z3.BVSubNoUnderflow(x, y, True))), "IntegerOverflowUnderflow", a[0])
            if op == "mul":
                x, y = get(lambda x, y: (x, y))
                return self.checked(st, vint(x * y), z3.Not(z3.And(z3.BVMulNoOverflow(x, y, True), z3.BVMulNoUnderflow(x, y))), "IntegerOverflowUnderflow", a[0])
            raise AssertionError(op)

        def cmp_int(f, imm):
            x, y = (int_imm if imm else int2)(lambda x, y: (x, y))
            sto(st, a[0], vbool(f(x, y)))

        # ---------------- constants / stack
        if name == "PushNil":
            for _ in range(a[0]):
                st.stack.append(NIL)
        elif name == "PushInt":
            st.stack.append(vint(p.ints[a[0]]))
        elif name == "PushFloat":
            st.stack.append(vfloat_bits(float_bits(p.floats[a[0]])))
        elif name == "PushBool":
            st.stack.append(vbool(a[0]))
        elif name == "PushString":
            st.stack.append(Val("String", st.alloc(("String", BStr.lit(p.strings[a[0]].encode("utf-8"))))))
        elif name == "PushAddr":
            st.stack.append(Val("Addr", a[0]))
        elif name == "Pop":
            self.pop(st)
        elif name == "Duplicate":
            if not st.stack:
                raise InternalFault("duplicate on empty stack")
            st.stack.append(st.stack[-1])
        elif name == "LoadOffset":
            idx = st.base + a[0]
            if idx < 0 or idx >= len(st.stack):
                raise InternalFault("LoadOffset %d outside the stack at pc %d" % (a[0], self.cur_pc))
            st.stack.append(st.stack[idx])
        elif name == "StoreOffset":
            v = self.pop(st)
            idx = st.base + a[0]
            if idx < 0 or idx >= len(st.stack):
                raise InternalFault("StoreOffset %d outside the stack at pc %d" % (a[0], self.cur_pc))
            st.stack[idx] = v
        elif name == "StoreOffsetImm":
            idx = st.base + a[0]
            if idx < 0 or idx >= len(st.stack):
                raise InternalFault("StoreOffsetImm outside the stack")
            st.stack[idx] = vint(p.ints[a[1]])
        # ---------------- integer arithmetic
        elif name in ("AddInt", "AddIntImm"):
            return arith("add", name.endswith("Imm"))
        elif name in ("SubtractInt", "SubIntImm"):
            return arith("sub", name.endswith("Imm"))
        elif name in ("MulInt", "MulIntImm"):
            return arith("mul", name.endswith("Imm"))
        elif name in ("DivideInt", "DivideIntImm"):
            x, y = (int_imm if name.endswith("Imm") else int2)(lambda x, y: (x, y))
            z, nz = self.branch(st, y == I(0))
            extra = []
            if z is not None:
                self.fail(z, "DivisionByZero")
            if nz is not None:
                if nz is not st:
                    extra.append(nz)
                more = self.checked(nz, vint(signed_div(x, y)), z3.And(x == I(MIN), y == I(-1)), "IntegerOverflowUnderflow", a[0])
                extra.extend(more)
            return extra
        elif name in ("Modulo", "ModuloImm"):
            x, y = (int_imm if name.endswith("Imm") else int2)(lambda x, y: (x, y))
            z, nz = self.branch(st, y == I(0))
            extra = []
            if z is not None:
                self.fail(z, "DivisionByZero")
            if nz is not None:
                if nz is not st:
                    extra.append(nz)
                sto(nz, a[0], vint(rem_euclid(x, y)))
            return extra
        elif name in ("PowerInt", "PowerIntImm"):
            x, y = (int_imm if name.endswith("Imm") else int2)(lambda x, y: (x, y))
            y = z3.simplify(y)
            if not z3.is_bv_value(y):
                raise Unsupported("symbolic exponent")
            e = y.as_signed_long()
            if e < 0 or e > 8:
                raise Unsupported("exponent outside 0..8")
            acc = I(1)
            ovf = z3.BoolVal(False)
            for _ in range(e):
                ovf = z3.Or(ovf, z3.Not(z3.And(z3.BVMulNoOverflow(acc, x, True), z3.BVMulNoUnderflow(acc, x))))
                acc = acc * x
            return self.checked(st, vint(acc), ovf, "IntegerOverflowUnderflow", a[0])
        elif name == "BitXor":
            sto(st, a[0], vint(int2(lambda x, y: x ^ y)))
        elif name == "WrappingAdd":
            sto(st, a[0], vint(int2(lambda x, y: x + y)))
        elif name == "WrappingMul":
            sto(st, a[0], vint(int2(lambda x, y: x * y)))
        elif name in ("LessThanInt", "LessThanIntImm"):
            cmp_int(lambda x, y: x < y, name.endswith("Imm"))
        elif name in ("LessThanOrEqualInt", "LessThanOrEqualIntImm"):
            cmp_int(lambda x, y: x <= y, name.endswith("Imm"))
        elif name in ("GreaterThanInt", "GreaterThanIntImm"):
            cmp_int(lambda x, y: x > y, name.endswith("Imm"))
        elif name in ("GreaterThanOrEqualInt", "GreaterThanOrEqualIntImm"):
            cmp_int(lambda x, y: x >= y, name.endswith("Imm"))
        elif name in ("EqualInt", "EqualIntImm"):
            cmp_int(lambda x, y: x == y, name.endswith("Imm"))
        elif name == "EqualBool":
            y = ex(ld(st, a[2]), "Bool")
            x = ex(ld(st, a[1]), "Bool")
            sto(st, a[0], vbool(x == y))
        elif name == "Not":
            x = ex(ld(st, a[1]), "Bool")
            sto(st, a[0], vbool(z3.Not(x)))
        # ---------------- floats (bit patterns; arithmetic through z3 FP; NaN results are not modelled bit-exactly)
        elif name in ("AddFloat", "SubFloat", "MulFloat", "DivFloat", "AddFloatImm", "SubFloatImm", "MulFloatImm", "DivFloatImm"):
            imm = name.endswith("Imm")
            if imm:
                xb = ex(ld(st, a[1]), "Float")
                yb = I(float_bits(p.floats[a[2]]))
            else:
                yb = ex(ld(st, a[2]), "Float")
                xb = ex(ld(st, a[1]), "Float")
            x, y = to_fp(xb), to_fp(yb)
            rm = z3.RNE()
            if name.startswith("Div"):
                z, nz = self.branch(st, z3.fpIsZero(y))
                extra = []
                if z is not None:
                    self.fail(z, "DivisionByZero")
                if nz is not None:
                    if nz is not st:
                        extra.append(nz)
                    sto(nz, a[0], vfloat_bits(z3.fpToIEEEBV(z3.fpDiv(rm, x, y))))
                return extra
            f = {"Add": z3.fpAdd, "Sub": z3.fpSub, "Mul": z3.fpMul}[name[:3]]
            sto(st, a[0], vfloat_bits(z3.fpToIEEEBV(f(rm, x, y))))
        elif name in ("LessThanFloat", "LessThanOrEqualFloat", "GreaterThanFloat", "GreaterThanOrEqualFloat", "EqualFloat",
                      "LessThanFloatImm", "LessThanOrEqualFloatImm", "GreaterThanFloatImm", "GreaterThanOrEqualFloatImm", "EqualFloatImm"):
            imm = name.endswith("Imm")
            base = name[:-3] if imm else name
            if imm:
                xb = ex(ld(st, a[1]), "Float")
                yb = I(float_bits(p.floats[a[2]]))
            else:
                yb = ex(ld(st, a[2]), "Float")
                xb = ex(ld(st, a[1]), "Float")
            kx, ky = total_key(xb), total_key(yb)
            r = {"LessThanFloat": z3.ULT(kx, ky), "LessThanOrEqualFloat": z3.ULE(kx, ky), "GreaterThanFloat": z3.UGT(kx, ky),
                 "GreaterThanOrEqualFloat": z3.UGE(kx, ky), "EqualFloat": kx == ky}[base]
            sto(st, a[0], vbool(r))
        elif name == "FloatFromInt":
            x = ex(ld(st, a[1]), "Int")
            sto(st, a[0], vfloat_bits(z3.fpToIEEEBV(z3.fpSignedToFP(z3.RNE(), x, z3.Float64()))))
        # ---------------- strings
        elif name == "ConcatStrings":
            y = self.str_of(st, ld(st, a[2]))
            x = self.str_of(st, ld(st, a[1]))
            sto(st, a[0], Val("String", st.alloc(("String", str_concat(x, y)))))
        elif name in ("EqualString", "LessThanString", "LessThanOrEqualString", "GreaterThanString", "GreaterThanOrEqualString"):
            y = self.str_of(st, ld(st, a[2]))
            x = self.str_of(st, ld(st, a[1]))
            r = {"EqualString": lambda: str_eq(x, y), "LessThanString": lambda: str_lt(x, y, False),
                 "LessThanOrEqualString": lambda: str_lt(x, y, True), "GreaterThanString": lambda: str_lt(y, x, False),
                 "GreaterThanOrEqualString": lambda: str_lt(y, x, True)}[name]()
            sto(st, a[0], vbool(r))
        elif name == "StringFromInt":
            x = ex(ld(st, a[1]), "Int")
            xs = z3.simplify(x)
            s = BStr.lit(str(xs.as_signed_long()).encode()) if z3.is_bv_value(xs) else TStr([("itoa", x)])
            sto(st, a[0], Val("String", st.alloc(("String", s))))
        elif name == "StringFromFloat":
            x = ex(ld(st, a[1]), "Float")
            sto(st, a[0], Val("String", st.alloc(("String", TStr([("ftoa", x)])))))
        elif name == "StringCountBytes":
            s = flatten(self.str_of(st, ld(st, a[1])))
            sto(st, a[0], vint(s.len_term()))
        elif name == "StringNthByte":
            n = ex(ld(st, a[2]), "Int")
            s = flatten(self.str_of(st, ld(st, a[1])))
            if self.feasible(st.cond + [z3.Or(n < I(0), n >= s.len_term())]):
                raise InternalFault("StringNthByte index can be out of range at pc %d (host panic)" % self.cur_pc)
            e = z3.BitVecVal(0, 8)
            for k in range(len(s.bytes) - 1, -1, -1):
                e = z3.If(n == I(k), s.bytes[k], e)
            sto(st, a[0], vint(z3.ZeroExt(56, e)))
        # ---------------- control
        elif name == "Jump":
            st.pc = a[0]
        elif name in ("JumpIf", "JumpIfFalse"):
            c = ex(self.pop(st), "Bool")
            if name == "JumpIfFalse":
                c = z3.Not(c)
            t, f = self.branch(st, c)
            extra = []
            if t is not None:
                t.pc = a[0]
            if t is not None and f is not None:
                extra.append(f if f is not st else t)
            return extra
        elif name == "Call":
            nargs, addr = a[0] >> 27, a[0] & ((1 << 27) - 1)
            st.frames.append((st.pc, st.base, nargs))
            st.pc = addr
            st.base = len(st.stack)
        elif name == "CallFuncObj":
            top = self.pop(st)
            fields = self.obj(st, top, "Struct")[1]
            if not fields or fields[0].tag != "Addr":
                raise InternalFault("function object without code address")
            st.frames.append((st.pc, st.base, a[0]))
            st.pc = fields[0].v
            st.base = len(st.stack)
            st.stack.extend(fields[1:])
        elif name == "Return":
            nargs = a[0]
            if not st.frames:
                raise InternalFault("return without frame")
            idx = st.base - nargs
            if idx < 0 or not st.stack or idx >= len(st.stack):
                raise InternalFault("return slot outside the stack")
            st.stack[idx] = st.stack[-1]
            ret, base, fn = st.frames.pop()
            newlen = st.base - fn + 1
            if newlen < 0 or newlen > len(st.stack):
                raise InternalFault("frame truncation beyond the stack")
            del st.stack[newlen:]
            st.base = base
            st.pc = ret
            if ret == -1:
                st.status = "done"
                self.finished.append(st)
        elif name == "ReturnVoid":
            if not st.frames:
                raise InternalFault("return without frame")
            ret, base, fn = st.frames.pop()
            newlen = st.base - fn
            if newlen < 0 or newlen > len(st.stack):
                raise InternalFault("frame truncation beyond the stack")
            del st.stack[newlen:]
            st.base = base
            st.pc = ret
            if ret == -1:
                st.status = "done"
                self.finished.append(st)
        elif name == "Stop":
            st.status = "done"
            self.finished.append(st)
        elif name == "Panic":
            self.str_of(st, self.pop(st))
            self.fail(st, "Panic")
        elif name == "HostFunc":
            if a[0] == 2:  # print_string (prelude host functions are numbered in name order)
                st.out.append(self.str_of(st, self.pop(st)))
            elif a[0] == 0:
                self.str_of(st, self.pop(st))
            else:
                raise Unsupported("host function %d" % a[0])
        # ---------------- data structures
        elif name in ("ConstructStruct", "MakeClosure"):
            n = a[0] + (1 if name == "MakeClosure" else 0)
            if len(st.stack) < n:
                raise InternalFault("construct: stack underflow")
            fields = st.stack[len(st.stack) - n:]
            del st.stack[len(st.stack) - n:]
            st.stack.append(Val("Struct", st.alloc(("Struct", fields))))
        elif name == "ConstructArray":
            n = a[0]
            if len(st.stack) < n:
                raise InternalFault("construct: stack underflow")
            fields = st.stack[len(st.stack) - n:]
            del st.stack[len(st.stack) - n:]
            st.stack.append(Val("Array", st.alloc(("Array", fields))))
        elif name == "ConstructVariant":
            v = self.pop(st)
            st.stack.append(Val("Variant", st.alloc(("Variant", a[0], v))))
        elif name == "DeconstructStruct":
            f = self.obj(st, self.pop(st), "Struct")[1]
            st.stack.extend(reversed(f))
        elif name == "DeconstructArray":
            f = self.obj(st, self.pop(st), "Array")[1]
            st.stack.extend(reversed(f))
        elif name == "DeconstructVariant":
            o = self.obj(st, self.pop(st), "Variant")
            st.stack.append(o[2])
            st.stack.append(vint(o[1]))
        elif name == "GetField":
            f = self.obj(st, ld(st, a[1]), "Struct")[1]
            if a[0] >= len(f):
                raise InternalFault("field index %d outside struct of %d fields at pc %d" % (a[0], len(f), self.cur_pc))
            st.stack.append(f[a[0]])
        elif name == "SetField":
            sv = ld(st, a[1])
            rv = self.pop(st)
            o = self.obj(st, sv, "Struct")
            if a[0] >= len(o[1]):
                raise InternalFault("field index outside struct")
            nf = list(o[1])
            nf[a[0]] = rv
            st.heap[sv.v] = ("Struct", nf)
        elif name == "GetIndex":
            idx = ex(ld(st, a[1]), "Int")
            av = ld(st, a[0])
            elems = self.obj(st, av, "Array")[1]
            return self.index_fork(st, idx, elems, lambda s, k: s.stack.append(elems[k]))
        elif name == "SetIndex":
            rv = ld(st, a[1])
            idx = ex(ld(st, a[0]), "Int")
            av = self.pop(st)
            elems = self.obj(st, av, "Array")[1]

            def upd(s, k):
                ne = list(s.heap[av.v][1])
                ne[k] = rv
                s.heap[av.v] = ("Array", ne)
            return self.index_fork(st, idx, elems, upd)
        elif name in ("ArrayPush", "ArrayPushIntImm"):
            rv = vint(p.ints[a[1]]) if name.endswith("Imm") else ld(st, a[1])
            av = ld(st, a[0])
            elems = self.obj(st, av, "Array")[1]
            st.heap[av.v] = ("Array", list(elems) + [rv])
        elif name == "ArrayLength":
            elems = self.obj(st, ld(st, a[1]), "Array")[1]
            sto(st, a[0], vint(len(elems)))
        elif name == "ArrayPop":
            av = ld(st, a[1])
            elems = self.obj(st, av, "Array")[1]
            if not elems:
                self.fail(st, "ArrayOutOfBounds")
                return []
            st.heap[av.v] = ("Array", list(elems[:-1]))
            sto(st, a[0], elems[-1])
        else:
            raise Unsupported("instruction %s" % name)
        return []

    def index_fork(self, st, idx, elems, action):
        """fork over the concrete positions of a symbolic index; out of range -> ArrayOutOfBounds"""
        idx = z3.simplify(idx)
        n = len(elems)
        if z3.is_bv_value(idx):
            k = idx.as_signed_long()
            if 0 <= k < n:
                action(st, k)
            else:
                self.fail(st, "ArrayOutOfBounds")
            return []
        extra = []
        cur = st  # the state in which idx is none of 0..k-1
        for k in range(n):
            hit, rest = self.branch(cur, idx == I(k))
            if hit is not None:
                action(hit, k)
                if hit is not st:
                    extra.append(hit)
            if rest is None:
                return extra
            cur = rest
        self.fail(cur, "ArrayOutOfBounds")
        return extra

    def obj(self, st, v, tag):
        if v.tag != tag:
            raise InternalFault("expected %s got %s at pc %d (%s)" % (tag, v.tag, self.cur_pc, self.p.instrs[self.cur_pc]))
        return st.heap[v.v]

    def str_of(self, st, v):
        return self.obj(st, v, "String")[1]


# ---------------------------------------------------------------- arithmetic helpers
def reg_decode(x):
    if x & 0x8000:
        return ("top",)
    n = x & 0x7FFF
    if n & 0x4000:
        n -= 0x8000
    return ("off", n)


def signed_div(x, y):
    return x / y  # z3 `/` on bit-vectors is bvsdiv (truncating)


def rem_euclid(x, y):
    r = z3.SRem(x, y)
    absy = z3.If(y < 0, -y, y)
    return z3.If(r < 0, r + absy, r)


def float_bits(f):
    import struct
    return struct.unpack("<Q", struct.pack("<d", f))[0]


def to_fp(bits):
    return z3.fpBVToFP(bits, z3.Float64())


def total_key(bits):
    """the key of f64::total_cmp, as an unsigned 64-bit integer"""
    sign = z3.Extract(63, 63, bits)
    return z3.If(sign == z3.BitVecVal(1, 1), ~bits, bits | z3.BitVecVal(1 << 63, 64))
