"""Load the bytecode the REAL compiler emits: build + run the driver, parse `{:?}` of CompiledProgram."""
import os
import struct
import subprocess
import sys
import tempfile

sys.path.insert(0, os.path.join(os.path.dirname(os.path.abspath(__file__)), "..", "lib"))
from vcommon import REPO, base_env  # noqa: E402

_driver = None


def _scratch():
    d = os.environ.get("ABRA_VERIF_SCRATCH", "/var/tmp")
    os.makedirs(d, exist_ok=True)
    return d


def driver():
    global _driver
    if _driver is None:
        import setup
        _driver = setup.build_driver()
    return _driver


class CompileError(Exception):
    pass


# ------------------------------------------------------------ Rust Debug-format parser
class P:
    def __init__(self, s):
        self.s, self.i = s, 0

    def ws(self):
        while self.i < len(self.s) and self.s[self.i] in " \n\t":
            self.i += 1

    def peek(self):
        self.ws()
        return self.s[self.i] if self.i < len(self.s) else ""

    def expect(self, c):
        self.ws()
        if not self.s.startswith(c, self.i):
            raise ValueError("expected %r at %d: %r" % (c, self.i, self.s[self.i:self.i + 40]))
        self.i += len(c)

    def value(self):
        c = self.peek()
        if c == "[":
            return self.seq("[", "]")
        if c == "(":
            return tuple(self.seq("(", ")"))
        if c == '"':
            return self.string()
        if c.isdigit() or c == "-":
            return self.number()
        return self.ident_thing()

    def seq(self, o, cl):
        self.expect(o)
        out = []
        while self.peek() != cl:
            out.append(self.value())
            if self.peek() == ",":
                self.i += 1
        self.expect(cl)
        return out

    def string(self):
        self.expect('"')
        out = []
        while True:
            c = self.s[self.i]
            if c == '"':
                self.i += 1
                break
            if c == "\\":
                n = self.s[self.i + 1]
                self.i += 2
                if n == "n":
                    out.append("\n")
                elif n == "t":
                    out.append("\t")
                elif n == "r":
                    out.append("\r")
                elif n == "0":
                    out.append("\0")
                elif n == "u":
                    j = self.s.index("}", self.i)
                    out.append(chr(int(self.s[self.i + 1:j], 16)))
                    self.i = j + 1
                else:
                    out.append(n)
            else:
                out.append(c)
                self.i += 1
        return "".join(out)

    def number(self):
        self.ws()
        j = self.i
        while j < len(self.s) and (self.s[j].isalnum() or self.s[j] in "-+._"):
            j += 1
        tok = self.s[self.i:j]
        self.i = j
        if tok in ("inf", "-inf", "NaN"):
            return float(tok.replace("NaN", "nan"))
        if any(ch in tok for ch in ".eE") or tok in ("inf",):
            return float(tok)
        return int(tok)

    def ident_thing(self):
        self.ws()
        j = self.i
        while j < len(self.s) and (self.s[j].isalnum() or self.s[j] in "_:"):
            j += 1
        name = self.s[self.i:j]
        if not name:
            raise ValueError("unexpected %r at %d" % (self.s[self.i:self.i + 30], self.i))
        self.i = j
        if name in ("true", "false"):
            return name == "true"
        if name in ("inf", "NaN"):
            return float(name.replace("NaN", "nan"))
        c = self.peek()
        if c == "(":
            return (name, list(self.seq("(", ")")))
        if c == "{":
            self.expect("{")
            d = {}
            while self.peek() != "}":
                k = self.ident_only()
                self.expect(":")
                d[k] = self.value()
                if self.peek() == ",":
                    self.i += 1
            self.expect("}")
            return (name, d)
        return (name, [])

    def ident_only(self):
        self.ws()
        j = self.i
        while j < len(self.s) and (self.s[j].isalnum() or self.s[j] == "_"):
            j += 1
        n = self.s[self.i:j]
        self.i = j
        return n


TOP = 0x8000


def reg(x):
    """Decode the 16-bit register encoding: ('top',) or ('off', n)."""
    if x & TOP:
        return ("top",)
    n = x & 0x7FFF
    if n & 0x4000:
        n -= 0x8000
    return ("off", n)


class Program:
    def __init__(self, d):
        self.instrs = []
        for ins in d["instructions"]:
            name, args = ins
            if isinstance(args, dict):
                args = [args[k] for k in args]
            flat = []
            for a in args:
                if isinstance(a, tuple) and len(a) == 2 and a[0] in ("ProgramCounter", "CallData"):
                    flat.append(a[1][0])
                else:
                    flat.append(a)
            self.instrs.append((name, flat))
        self.ints = d["int_constants"]
        self.floats = d["float_constants"]
        self.strings = d["static_strings"]
        self.fn_arena = d["function_name_arena"]
        self.fn_table = d["function_name_table"]
        self.file_arena = d["filename_arena"]
        self.line_table = d["lineno_table"]

    def function_entries(self, name):
        """bytecode indices at which a run of instructions attributed to function `name` starts."""
        out = []
        for (start, nid) in self.fn_table:
            if self.fn_arena[nid] == name:
                out.append(start)
        return out

    def function_at(self, pc):
        best = None
        for (start, nid) in self.fn_table:
            if start <= pc:
                best = self.fn_arena[nid]
        return best


def compile_source(src, extra_files=None, no_opt=False):
    """Compile Abra source with the real compiler (through the driver). Returns Program."""
    d = tempfile.mkdtemp(prefix="abra_src_", dir=_scratch())
    try:
        open(os.path.join(d, "main.abra"), "w").write(src)
        for k, v in (extra_files or {}).items():
            os.makedirs(os.path.dirname(os.path.join(d, k)), exist_ok=True)
            open(os.path.join(d, k), "w").write(v)
        env = base_env()
        env["ABRA_MODULES_DIR"] = os.path.join(REPO, "modules")
        if no_opt:
            env["ABRA_VERIF_NO_OPT"] = "1"
        r = subprocess.run([driver(), "dump", d, "main.abra"], capture_output=True, text=True, env=env, timeout=120)
        if r.returncode != 0 or r.stdout.startswith("COMPILE_ERROR"):
            raise CompileError((r.stdout + r.stderr)[-2000:])
        name, fields = P(r.stdout).value()
        assert name == "CompiledProgram", name
        return Program(fields)
    finally:
        import shutil
        shutil.rmtree(d, ignore_errors=True)


def check_source(src, extra_files=None):
    """Run the real checker only. Returns (ok, diagnostics text)."""
    d = tempfile.mkdtemp(prefix="abra_src_", dir=_scratch())
    try:
        open(os.path.join(d, "main.abra"), "w").write(src)
        for k, v in (extra_files or {}).items():
            open(os.path.join(d, k), "w").write(v)
        env = base_env()
        env["ABRA_MODULES_DIR"] = os.path.join(REPO, "modules")
        r = subprocess.run([driver(), "check", d, "main.abra"], capture_output=True, text=True, env=env, timeout=120)
        if r.returncode != 0 and not r.stdout:
            return False, "checker crashed: " + r.stderr[-1500:]
        ok = r.stdout.startswith("OK")
        return ok, r.stdout
    finally:
        import shutil
        shutil.rmtree(d, ignore_errors=True)


def run_source(src, extra_files=None, budget=1000, no_opt=False, max_steps=5_000_000):
    """Run on the real VM. Returns dict(status, output, top, steps, error)."""
    import json
    d = tempfile.mkdtemp(prefix="abra_src_", dir=_scratch())
    try:
        open(os.path.join(d, "main.abra"), "w").write(src)
        for k, v in (extra_files or {}).items():
            open(os.path.join(d, k), "w").write(v)
        env = base_env()
        env["ABRA_MODULES_DIR"] = os.path.join(REPO, "modules")
        if no_opt:
            env["ABRA_VERIF_NO_OPT"] = "1"
        r = subprocess.run([driver(), "run", d, "main.abra", str(budget), str(max_steps)], capture_output=True, text=True, env=env, timeout=300)
        line = r.stdout.strip().splitlines()[-1] if r.stdout.strip() else ""
        try:
            return json.loads(line)
        except Exception:
            return {"status": "host_crash", "output": "", "top": "", "steps": 0, "error": (r.stdout + r.stderr)[-1500:], "rc": r.returncode}
    finally:
        import shutil
        shutil.rmtree(d, ignore_errors=True)


if __name__ == "__main__":
    p = compile_source(open(sys.argv[1]).read())
    for i, ins in enumerate(p.instrs):
        print(i, p.function_at(i), ins)
    print(p.ints, p.floats, p.strings)
