"""Helpers on top of svm: symbolic inputs by type, calling a compiled function, summarising paths."""
import itertools

import z3

from svm import BStr, I, InternalFault, Machine, State, TStr, Unsupported, Val, vbool, vfloat_bits, vint  # noqa: F401

_counter = itertools.count()


class Inputs:
    """Builds symbolic argument values in a State and remembers the leaf variables."""

    def __init__(self, st, prefix):
        self.st, self.prefix = st, prefix
        self.leaves = []  # z3 constants in creation order
        self.constraints = []

    def fresh_bv(self, bits=64):
        v = z3.BitVec("%s_%d" % (self.prefix, next(_counter)), bits)
        self.leaves.append(v)
        return v

    def fresh_bool(self):
        v = z3.Bool("%s_%d" % (self.prefix, next(_counter)))
        self.leaves.append(v)
        return v

    def make(self, ty):
        """ty: 'int' | 'bool' | 'float' | 'void' | ('string', maxlen) | ('tuple', [tys]) | ('struct', [tys]) |
               ('array', ty, n) | ('variant', tag, ty_or_None) | ('option', ty, is_some) | ('const', Val)"""
        st = self.st
        if ty == "int":
            return vint(self.fresh_bv())
        if ty == "bool":
            return vbool(self.fresh_bool())
        if ty == "float":
            return vfloat_bits(self.fresh_bv())
        if ty == "void":
            return vint(0)
        kind = ty[0]
        if kind == "string":
            maxlen = ty[1]
            ln = self.fresh_bv()
            self.constraints.append(z3.ULE(ln, I(maxlen)))
            bs = []
            for _ in range(maxlen):
                b = self.fresh_bv(8)
                self.constraints.append(z3.ULT(b, z3.BitVecVal(128, 8)))  # ASCII: valid UTF-8 by construction
                bs.append(b)
            return Val("String", st.alloc(("String", BStr(ln, bs))))
        if kind in ("tuple", "struct"):
            fields = [self.make(t) for t in ty[1]]
            return Val("Struct", st.alloc(("Struct", fields)))
        if kind == "array":
            elems = [self.make(ty[1]) for _ in range(ty[2])]
            return Val("Array", st.alloc(("Array", elems)))
        if kind == "variant":
            payload = self.make(ty[2]) if ty[2] is not None else vint(0)
            return Val("Variant", st.alloc(("Variant", ty[1], payload)))
        if kind == "const":
            return ty[1]
        raise ValueError(ty)


def call(prog, fname, build_args, max_steps=20000, max_paths=512, machine=None, which=0):
    """Symbolically execute function `fname` of `prog` on arguments created by build_args(Inputs) -> [Val].
    Returns (machine, finished_states, inputs)."""
    entries = prog.function_entries(fname)
    if not entries:
        raise KeyError("function %s not found in the compiled program (not reachable from main?)" % fname)
    st = State()
    inp = Inputs(st, fname)
    args = build_args(inp)
    st.stack = list(args)
    st.base = len(args)
    st.frames = [(-1, 0, len(args))]
    st.pc = entries[which]
    st.cond = list(inp.constraints)
    m = machine or Machine(prog, max_steps=max_steps, max_paths=max_paths)
    m.finished = []
    done = m.run(st)
    return m, done, inp


def result_value(st):
    """Top of the stack of a finished state (the function result)."""
    if not st.stack:
        return None
    return st.stack[-1]


def summarize_bool(states):
    """(formula for `returns true`, formula for `terminates normally`, list of abnormal (cond, status))"""
    true_f, ok_f, bad = [], [], []
    for s in states:
        c = z3.And(*s.cond) if s.cond else z3.BoolVal(True)
        if s.status == "done":
            r = result_value(s)
            if r is None or r.tag != "Bool":
                bad.append((c, "non-bool result"))
                continue
            ok_f.append(c)
            true_f.append(z3.And(c, r.v))
        elif s.status != "dead":
            bad.append((c, s.status))
    return z3.Or(*true_f) if true_f else z3.BoolVal(False), z3.Or(*ok_f) if ok_f else z3.BoolVal(False), bad


def summarize_int(states):
    """(ite term for the int result, normal-termination formula, abnormal list)"""
    term = I(0)
    ok_f, bad = [], []
    for s in states:
        c = z3.And(*s.cond) if s.cond else z3.BoolVal(True)
        if s.status == "done":
            r = result_value(s)
            if r is None or r.tag != "Int":
                bad.append((c, "non-int result"))
                continue
            ok_f.append(c)
            term = z3.If(c, r.v, term)
        elif s.status != "dead":
            bad.append((c, s.status))
    return term, z3.Or(*ok_f) if ok_f else z3.BoolVal(False), bad


def model_values(model, leaves):
    out = {}
    for v in leaves:
        val = model.eval(v, model_completion=True)
        if z3.is_bool(v):
            out[str(v)] = z3.is_true(val)
        else:
            out[str(v)] = val.as_long()
    return out
