"""Developer helper: python3-vt lib/kdev.py [-j N] [-t timeout] <harness-regex>...  (no replay, prints a table)."""
import os, re, sys, time
sys.path.insert(0, os.path.dirname(os.path.abspath(__file__)))
os.environ.setdefault("ABRA_VERIF_KEEP", "1")
from kani_runner import KaniSession
from kcheck import MODULES
import main as M
args = sys.argv[1:]
jobs = None; timeout = 300; mem = 12
while args and args[0] in ("-j", "-t", "-m"):
    if args[0] == "-j": jobs = int(args[1])
    elif args[0] == "-m": mem = int(args[1])
    else: timeout = int(args[1])
    args = args[2:]
hm = M.scan_harnesses()
sel = [(n, m) for n, m in sorted(hm.items()) if any(re.search(a, n) for a in args)]
s = KaniSession("dev")
full = {MODULES[m][0] + "::" + n: n for n, m in sel}
t0 = time.time()
r = s.run(list(full), timeout_s=timeout, jobs=jobs, mem_gb=mem)
print("wall %.1fs rc=%s build_error=%s log=%s" % (r["wall_s"], r["rc"], r["build_error"], r["log"]))
for h, res in r["results"].items():
    st = res.get("stats") or {}
    print("%-28s %-22s dur=%6.1fs symex=%5.1f solver=%6.2f vccs=%s/%s covers=%s" % (
        full[h], res["status"], res.get("duration_s", 0), float(st.get("runtime_symex_s", 0) or 0),
        float(st.get("runtime_solver_s", 0) or 0), st.get("vccs_remaining"), st.get("vccs_generated"),
        {k[:30]: v for k, v in res["covers"].items() if v != "Satisfied"}))
    for f in res["failed"][:4]:
        print("      FAILED:", f["description"], f["location"], f["category"])
