"""Regenerates /verif/MANIFEST.json from the tables below (python3 lib/gen_manifest.py)."""
import json, os, subprocess, sys
VERIF = os.path.dirname(os.path.dirname(os.path.abspath(__file__)))
sys.path.insert(0, os.path.join(VERIF, "checks"))
from claims import CLAIMS, NOT_APPLICABLE  # noqa: E402

def hook_commits():
    try:
        out = subprocess.run(["git", "-C", "/repo", "log", "--format=%h %s"], capture_output=True, text=True).stdout
        return [l.split()[0] for l in out.splitlines() if "verif hook" in l]
    except Exception:
        return []

checks = []
for pid in sorted(CLAIMS):
    c = CLAIMS[pid]
    checks.append({
        "property_id": pid,
        "quick_cmd": "./check %s --tier quick" % pid,
        "thorough_cmd": "./check %s --tier thorough" % pid,
        "evidence_file": "/verif/evidence/%s.json" % pid,
        "replay_cmd_template": "./check %s --replay {path}" % pid,
        "engine": c["engine"],
        "level_claimed": {"category": c["level"], "text": c["text"], "design_ref": c.get("design_ref", "DESIGN.md section 4, " + pid)},
        "level_note": c["note"],
        "technique": c["technique"],
    })
m = {
    "version": 1,
    "setup_cmd": "./check --setup",
    "hooks": {
        "guard": "--cfg abra_verif (rustc cfg; harness includes additionally require cfg(kani))",
        "enable": "RUSTFLAGS='--cfg abra_verif' with ABRA_VERIF_HARNESS_DIR=<copy of /verif/kani>; cargo kani -p abra_core (engine K); "
                  "RUSTFLAGS='--cfg abra_verif' cargo build of /verif/driver (engine S; ABRA_VERIF_NO_OPT=1 disables the peephole optimizer)",
        "baseline_off_cmd": "cd /repo && cargo nextest run --workspace --no-fail-fast --test-threads 8 --offline || cargo test --workspace --no-fail-fast --offline",
        "source_commits": hook_commits(),
        "add_only": True,
    },
    "engines": [
        {"name": "K", "path": "/verif/kani + /verif/lib/kani_runner.py", "kind_free_text": "Kani 0.68 / CBMC 6.11 / cadical harnesses compiled into abra_core through cfg(all(kani, abra_verif)) include hooks; one real VM step / real function per harness over symbolic inputs; native concrete-playback replay",
         "serves_properties": sorted(p for p in CLAIMS if "K" in CLAIMS[p]["engine"])},
        {"name": "S", "path": "/verif/symex + /verif/driver", "kind_free_text": "symbolic executor (Python + z3) for the bytecode the real compiler emits (prelude, core/map, templates); inputs are z3 terms; replay on the real VM through the driver",
         "serves_properties": sorted(p for p in CLAIMS if "S" in CLAIMS[p]["engine"])},
        {"name": "R", "path": "/verif/symex/refsem.py + /verif/symex/tv.py", "kind_free_text": "symbolic reference interpreter of the source AST; translation validation against engine S on every jointly satisfiable path pair (z3)",
         "serves_properties": sorted(p for p in CLAIMS if "R" in CLAIMS[p]["engine"])},
        {"name": "M", "path": "/verif/mir/arena_check.py", "kind_free_text": "nightly MIR dump of utils::arena::Arena::alloc translated to 64-bit bit-vector obligations, decided by z3, cross-checked by cvc5, Miri replay",
         "serves_properties": sorted(p for p in CLAIMS if CLAIMS[p]["engine"] == "M")},
        {"name": "M2", "path": "/verif/mir/mirvm.py + sched.py + srcloc.py + dropcheck.py", "kind_free_text": "symbolic interpreter for rustc MIR text (re-dumped from /repo on every run) with library summaries and z3: scheduler (vm::Runtime), Drop implementations, source location tables; native replay of counterexamples",
         "serves_properties": sorted(p for p in CLAIMS if "M2" in CLAIMS[p]["engine"])},
    ],
    "checks": checks,
    "not_applicable": [{"property_id": p, "reason": r} for p, r in sorted(NOT_APPLICABLE.items()) if p not in CLAIMS],
    "notes": "Solver-based checking only (Kani/CBMC, z3/cvc5). Every claim is bounded; bounds are written into each evidence file by the check. "
             "exit 2 = inconclusive (timeout, out of memory, counterexample not reproducible natively). See DESIGN.md.",
}
json.dump(m, open(os.path.join(VERIF, "MANIFEST.json"), "w"), indent=1)
try:
    import jsonschema
    jsonschema.validate(m, json.load(open("/root/.vp/MANIFEST.schema.json")))
    print("MANIFEST.json valid:", len(checks), "checks,", len(m["not_applicable"]), "not applicable")
except ImportError:
    print("written (jsonschema not available)")
