"""Engine K: run Kani harnesses (in-crate, included through the cfg(abra_verif) hooks) against a
scratch copy of /repo's current working tree; parse verdicts; replay counterexamples natively."""
import json
import os
import re
import resource
import shutil
import subprocess
import time

from vcommon import CACHE_ROOT, VERIF, base_env, copy_repo, scratch_dir

HARNESS_SRC = os.path.join(VERIF, "kani")
STUBS_DOC = [
    "VmGreenThread::fail -> panic!(\"internal vm fault\") (a tag mismatch / underflow is a failed check)",
    "VmGreenThread::pc_to_error_location, make_stack_trace -> empty values (except in the C32 harnesses)",
    "std::sync::mpsc::Sender::send -> ghost slot keeping the boxed thread (Kani cannot compile the real one)",
]


class KaniSession:
    def __init__(self, tag, package="abra_core", pkg_dir=None):
        self.dir = scratch_dir("K_" + tag)
        self.repo = copy_repo(os.path.join(self.dir, "repo"))
        self.hdir = os.path.join(self.dir, "h")
        shutil.copytree(HARNESS_SRC, self.hdir)
        self.target = os.path.join(self.dir, "target")
        cache = os.path.join(CACHE_ROOT, "kani_target")
        if os.path.isdir(cache) and not os.path.exists(self.target):
            subprocess.run(["cp", "-a", "--reflink=auto", cache, self.target], check=False)
        self.package = package
        self.build_s = 0.0

    def env(self, playback=False):
        env = base_env()
        flags = "--cfg abra_verif"
        if playback:
            flags += " --cfg abra_verif_playback"
        env["RUSTFLAGS"] = flags
        env["ABRA_VERIF_HARNESS_DIR"] = self.hdir
        return env

    @staticmethod
    def _limits(mem_gb):
        def f():
            lim = int(mem_gb * (1 << 30))
            resource.setrlimit(resource.RLIMIT_AS, (lim, lim))
            os.setsid()

        return f

    def run(self, harnesses, timeout_s=300, jobs=None, mem_gb=12, extra_args=None, log_name="kani.log"):
        """harnesses: list of fully-qualified harness names. Returns dict name -> result."""
        jobs = jobs or min(16, max(1, len(harnesses)))
        out_json = os.path.join(self.dir, "out_%d.json" % int(time.time() * 1000))
        cmd = [
            "cargo", "kani", "-p", self.package, "--target-dir", self.target,
            "-Z", "stubbing", "-Z", "unstable-options", "-Z", "mem-predicates",
            "--harness-timeout", "%ds" % timeout_s,
            "--export-json", out_json,
            "-j", str(jobs), "--output-format", "terse", "--exact",
        ]
        for h in harnesses:
            cmd += ["--harness", h]
        if extra_args:
            cmd += extra_args
        log = os.path.join(self.dir, log_name)
        t0 = time.time()
        overall = timeout_s * (1 + (len(harnesses) + jobs - 1) // jobs) + 600
        with open(log, "w") as lf:
            try:
                p = subprocess.Popen(cmd, cwd=self.repo, env=self.env(), stdout=lf, stderr=subprocess.STDOUT,
                                     preexec_fn=self._limits(mem_gb))
                p.wait(timeout=overall)
                rc = p.returncode
            except subprocess.TimeoutExpired:
                try:
                    os.killpg(p.pid, 9)
                except Exception:
                    pass
                rc = -9
        wall = time.time() - t0
        text = open(log, errors="replace").read()
        results = {h: {"status": "missing", "failed": [], "covers": {}, "stats": {}, "summary": {}} for h in harnesses}
        build_error = None
        if "error: could not compile" in text or "Failed to execute cargo" in text:
            m = re.findall(r"^error(?:\[E\d+\])?: .*$", text, flags=re.M)
            build_error = "; ".join(m[:5])
        if os.path.exists(out_json):
            try:
                d = json.load(open(out_json))
            except Exception as e:  # truncated file
                d = None
                build_error = build_error or ("unreadable kani json: %s" % e)
            if d:
                stats = {c["harness_id"]: c.get("cbmc_stats", {}) for c in d.get("cbmc", [])}
                summ = {c["harness_id"]: c.get("property_details", {}) for c in d.get("property_details", [])}
                errs = {c["harness_id"]: c for c in d.get("error_details", [])}
                for r in d.get("verification_results", {}).get("results", []):
                    h = r["harness_id"]
                    if h not in results:
                        continue
                    res = results[h]
                    res["status"] = {"Success": "pass", "Failure": "fail"}.get(r.get("status"), str(r.get("status")))
                    res["duration_s"] = r.get("duration_ms", 0) / 1000.0
                    res["stats"] = stats.get(h, {})
                    res["summary"] = summ.get(h, {})
                    res["error"] = errs.get(h, {})
                    for c in r.get("checks", []):
                        st = c.get("status")
                        if str(st).lower() in ("error", "undetermined"):
                            # CBMC could not decide this check (solver ran out of memory / was interrupted)
                            res["undecided_checks"] = res.get("undecided_checks", 0) + 1
                            continue
                        if c.get("category") == "cover":
                            res["covers"][c.get("description", "")] = st
                        elif c.get("category") == "NaN":
                            # CBMC's --nan-check flags any float operation that may produce NaN; producing
                            # NaN is IEEE-conformant behaviour for the VM's float arms, not a defect
                            res.setdefault("ignored_nan_checks", 0)
                            res["ignored_nan_checks"] += 1 if st not in ("Success", "Unreachable") else 0
                        elif st not in ("Success", "Unreachable"):
                            res["failed"].append({
                                "description": c.get("description", "").strip('"'),
                                "category": c.get("category"),
                                "function": c.get("function"),
                                "status": st,
                                "location": "%s:%s" % (c.get("location", {}).get("file"), c.get("location", {}).get("line")),
                            })
                    # a harness Kani marks failed without any failed check (timeout, OOM, CBMC error)
                    if res.get("undecided_checks"):
                        res["status"] = "error:solver_gave_up(%d checks undecided; out of memory?)" % res["undecided_checks"]
                    elif res["status"] == "fail" and not res["failed"] and res.get("ignored_nan_checks"):
                        res["status"] = "pass"
                    elif res["status"] == "fail" and not res["failed"]:
                        et = res["error"].get("error_type") or res["error"].get("exit_status") or "unknown"
                        res["status"] = "error:" + str(et)
            os.remove(out_json)
        if any(r["status"] == "missing" for r in results.values()):
            # Kani wrote no (or a partial) JSON report -- it exits without one when a CBMC process aborts.
            # Fall back to the terse log: blocks are tagged with the worker thread that ran the harness.
            self._parse_terse_log(text, results)
        for h, res in results.items():
            if res["status"] == "missing":
                res["status"] = "error:no_verdict_in_kani_output"
        return {"results": results, "wall_s": wall, "rc": rc, "log": log, "build_error": build_error}

    @staticmethod
    def _parse_terse_log(text, results):
        cur = {}  # thread id -> harness
        blocks = re.split(r"^(?=Thread \d+: )", text, flags=re.M)
        if len(blocks) <= 1:  # sequential run: no thread tags
            blocks = re.split(r"^(?=Checking harness )", text, flags=re.M)
        for b in blocks:
            m = re.match(r"(?:Thread (\d+): )?Checking harness (\S+?)\.\.\.", b)
            tid = None
            mt = re.match(r"Thread (\d+): ", b)
            if mt:
                tid = mt.group(1)
            if m:
                cur[tid] = m.group(2)
                if "VERIFICATION:-" not in b:
                    continue
            h = cur.get(tid)
            if h is None or h not in results or results[h]["status"] != "missing" or "VERIFICATION:-" not in b:
                continue
            res = results[h]
            if "VERIFICATION:- SUCCESSFUL" in b:
                res["status"] = "pass"
                mc = re.search(r"\*\* (\d+) of (\d+) cover properties satisfied", b)
                # without the JSON report individual cover names are unknown.  Witnesses of outcomes that a harness' concrete pre-state
                # excludes are legitimately unreachable ("reqr:"), so k < n is normal; vacuity shows as k == 0.
                if mc and int(mc.group(1)) == 0:
                    res["covers"] = {"req: (terse log) 0 of %s cover properties satisfied" % mc.group(2): "Unsatisfiable"}
                elif mc and mc.group(1) != mc.group(2):
                    res["covers"] = {"info: (terse log, names unknown) %s of %s cover properties satisfied" % (mc.group(1), mc.group(2)): "Satisfied"}
                else:
                    res["covers"] = {"req: (terse log) all cover properties satisfied": "Satisfied"}
            else:
                fails = re.findall(r'Failed Checks: (.*)\n File: "([^"]*)", line (\d+)', b)
                fails = [f for f in fails if not f[0].startswith("NaN on")]
                if "timed out" in b:
                    res["status"] = "timeout"
                elif "out of memory" in b or "CBMC failed" in b:
                    res["status"] = "error:cbmc_failed(%s)" % ("out of memory" if "memory" in b else "aborted")
                elif fails:
                    res["status"] = "fail"
                    res["failed"] = [{"description": f[0].strip().strip('"'), "category": "assertion", "function": "", "status": "Failure",
                                      "location": "%s:%s" % (f[1], f[2])} for f in fails]
                elif re.search(r"\*\* 0 of \d+ failed", b):
                    res["status"] = "error:solver_gave_up(undecided checks)"
                else:
                    res["status"] = "error:unknown_failure"
            md = re.search(r"Verification Time: ([0-9.]+)s", b)
            if md:
                res["duration_s"] = float(md.group(1))

    # ---------------------------------------------------------------- replay
    def playback_tests(self, harness, timeout_s=900):
        """Ask Kani for concrete playback unit tests of a failing harness; returns [(check_kind, desc, code)]."""
        cmd = [
            "cargo", "kani", "-p", self.package, "--target-dir", self.target,
            "-Z", "stubbing", "-Z", "mem-predicates", "-Z", "concrete-playback", "--concrete-playback=print",
            "--output-format", "terse", "--exact", "--harness", harness,
        ]
        log = os.path.join(self.dir, "playback_%s.log" % harness.split("::")[-1])
        with open(log, "w") as lf:
            try:
                subprocess.run(cmd, cwd=self.repo, env=self.env(), stdout=lf, stderr=subprocess.STDOUT,
                               timeout=timeout_s)
            except subprocess.TimeoutExpired:
                return []
        text = open(log, errors="replace").read()
        tests = []
        for block in re.findall(r"```\n(.*?)```", text, flags=re.S):
            m = re.search(r"/// Check for `(\w+)`: (.*)", block)
            f = re.search(r"fn (kani_concrete_playback_\w+)\(\)", block)
            if m and f:
                tests.append((m.group(1), m.group(2).strip().strip('"'), f.group(1), block))
        return tests

    def run_playback(self, module_file, tests, release=False, timeout_s=900, test_filter="kani_concrete_playback"):
        """Compile the generated tests into the harness module and run them natively. Returns {test: 'ok'|'FAILED'|...}."""
        pb = os.path.join(self.hdir, module_file)
        with open(pb, "w") as f:
            for (_k, _d, _name, code) in tests:
                f.write(code + "\n")
        env = self.env(playback=True)
        env["CARGO_TARGET_DIR"] = os.path.join(self.dir, "pb_target_rel" if release else "pb_target")
        if release:
            env["CARGO_PROFILE_TEST_OPT_LEVEL"] = "3"
            env["CARGO_PROFILE_TEST_DEBUG_ASSERTIONS"] = "false"
            env["CARGO_PROFILE_TEST_OVERFLOW_CHECKS"] = "false"
        cmd = ["cargo", "kani", "playback", "-Z", "concrete-playback", "-p", self.package, "--lib", "--",
               test_filter, "--test-threads", "1"]
        log = os.path.join(self.dir, "pbrun_%s.log" % ("rel" if release else "dev"))
        with open(log, "w") as lf:
            try:
                subprocess.run(cmd, cwd=self.repo, env=env, stdout=lf, stderr=subprocess.STDOUT, timeout=timeout_s)
            except subprocess.TimeoutExpired:
                pass
        text = open(log, errors="replace").read()
        out = {}
        for (_k, _d, name, _c) in tests:
            m = re.search(r"test \S*%s ... (\w+)" % re.escape(name), text)
            out[name] = m.group(1) if m else "norun"
        # an abort (e.g. release profile UB, SIGSEGV) kills the test binary: count as failed for the running test
        if "SIGSEGV" in text or "SIGABRT" in text or "signal: 11" in text or "signal: 6" in text:
            for k in out:
                if out[k] == "norun":
                    out[k] = "FAILED"
        return out, log

    def replay(self, harness, module_file, prop, failed_descs):
        """Returns (reproduced: bool|None, replay_path, note)."""
        tests = self.playback_tests(harness)
        # one test function per distinct counterexample (the same counterexample can be listed under several failed checks);
        # CBMC's NaN checks are not property violations (ignored everywhere) -- their counterexamples are only kept when they are also
        # the counterexample of a real failure
        cand, seen = [], set()
        for t in sorted(tests, key=lambda t: t[0] == "NaN"):
            if t[0] == "cover" or t[2] in seen:
                continue
            if t[0] == "NaN":
                continue
            seen.add(t[2])
            cand.append(t)
        if not cand:
            return None, None, "Kani produced no concrete playback test for the failing check"
        dev, devlog = self.run_playback(module_file, cand, release=False)
        rel, rellog = self.run_playback(module_file, cand, release=True)
        reproduced = any(v == "FAILED" for v in dev.values()) or any(v == "FAILED" for v in rel.values())
        rdir = os.path.join(VERIF, "replays", prop)
        os.makedirs(rdir, exist_ok=True)
        path = os.path.join(rdir, harness.split("::")[-1] + ".rs")
        with open(path, "w") as f:
            f.write("// Concrete playback test(s) generated by Kani for harness `%s` (property %s).\n" % (harness, prop))
            f.write("// Failed checks: %s\n" % "; ".join(failed_descs))
            f.write("// Native replay: dev profile %s, release-like profile %s\n" % (dev, rel))
            f.write("// To re-run: ./check %s --replay %s\n\n" % (prop, path))
            for (_k, _d, _n, code) in cand:
                f.write(code + "\n")
        return reproduced, path, "dev=%s release=%s" % (dev, rel)
