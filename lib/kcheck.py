"""Generic driver for a property decided by a list of Kani harnesses."""
import os
import re
import time

from kani_runner import STUBS_DOC, KaniSession
from vcommon import tier

MODULES = {
    # harness-file stem -> (rust module path of the harnesses, playback file)
    "vm": ("vm::verif", "vm_playback.rs"),
    "lexer": ("parse::lexer::verif", "lexer_playback.rs"),
    "parse": ("parse::verif", "parse_playback.rs"),
    "pat": ("statics::pat_exhaustiveness::verif", "pat_playback.rs"),
    "translate": ("translate_bytecode::verif", "translate_playback.rs"),
    "optimize": ("optimize_bytecode::verif", "optimize_playback.rs"),
    "host_bindings": ("host_bindings::verif", "host_bindings_playback.rs"),
    "ast": ("ast::verif", "ast_playback.rs"),
}


MAX_REPLAYS = 2  # a native replay costs 2-3 minutes (two profiles)


def slug(s):
    return re.sub(r"[^A-Za-z0-9]+", "_", s).strip("_")[:60]


def harness_names(module):
    """All #[kani::proof] harness names defined under /verif/kani for a module, found by scanning the sources
    (macro-generated ones are listed by their macro invocation's first identifier argument)."""
    raise NotImplementedError


def k_check(prop, outcome, items, quick_timeout=240, thorough_timeout=1200, session=None, jobs=None):
    """items: list of dicts {module, name, quick(bool), optional_covers(bool)}.
    Returns (coverage_fragment, session)."""
    t = tier()
    sel = [it for it in items if t == "thorough" or it.get("quick", True)]
    session = session or KaniSession(prop)
    full = {}
    for it in sel:
        full[MODULES[it["module"]][0] + "::" + it["name"]] = it
    timeout = thorough_timeout if t == "thorough" else quick_timeout
    t0 = time.time()
    run = session.run(list(full.keys()), timeout_s=timeout, jobs=jobs)
    samples = []
    replays_done = 0
    n_pass = n_nontrivial = 0
    solver_s = symex_s = 0.0
    vccs = 0
    if run["build_error"]:
        outcome.inconc("kani build failed: %s (log %s)" % (run["build_error"], run["log"]))
    for h, res in run["results"].items():
        it = full[h]
        short = it["name"]
        st = res["status"]
        stats = res.get("stats") or {}
        solver_s += float(stats.get("runtime_solver_s", 0) or 0) + float(stats.get("runtime_decision_procedure_s", 0) or 0)
        symex_s += float(stats.get("runtime_symex_s", 0) or 0)
        vccs += int(stats.get("vccs_generated", 0) or 0)
        # "req:" witnesses must be satisfied; "reqr:" witnesses may also be unreachable code (an outcome the specification of this arm
        # excludes, e.g. the error outcome of a comparison) but must not be reachable-and-unsatisfiable
        unsat_covers = [d for d, s in res["covers"].items() if (s != "Satisfied" and d.startswith("req:")) or
                        (d.startswith("reqr:") and s not in ("Satisfied", "Unreachable"))]
        if not any(s == "Satisfied" for s in res["covers"].values()):
            unsat_covers.append("(no satisfied reachability witness at all)")
        entry = {
            "harness": short,
            "status": st,
            "properties_checked": (res.get("summary") or {}).get("total_properties"),
            "vccs_generated": stats.get("vccs_generated"),
            "vccs_remaining_after_simplification": stats.get("vccs_remaining"),
            "covers": res["covers"],
        }
        if st == "pass":
            n_pass += 1
            if unsat_covers:
                outcome.inconc("harness %s passed but reachability witness(es) not satisfied (vacuous?): %s" % (short, unsat_covers))
            elif int(stats.get("vccs_remaining", 1) or 0) > 0 or res["covers"]:
                n_nontrivial += 1
        elif st == "fail":
            descs = [f["description"] for f in res["failed"]]
            key = short + ":" + slug(descs[0] if descs else "unknown")
            known = outcome.findings.lookup(prop, key)
            if known is not None:
                outcome.violation(key, "; ".join(descs), None)
                entry["known_finding"] = key
            elif replays_done >= MAX_REPLAYS:
                entry["replay"] = "not replayed (replay budget of %d per run used)" % MAX_REPLAYS
                outcome.inconc("harness %s failed under CBMC (%s); not replayed natively because %d other counterexamples of this run were "
                               "already replayed" % (short, "; ".join(descs[:2]), MAX_REPLAYS))
            else:
                replays_done += 1
                rep, path, note = session.replay(h, MODULES[it["module"]][1], prop, descs)
                entry["replay"] = note
                only_memsafety = all(f["category"] not in ("assertion",) for f in res["failed"])
                if rep:
                    outcome.violation(key, "; ".join(descs) + " [replayed natively: %s]" % note, path)
                elif rep is False and only_memsafety:
                    outcome.inconc("harness %s: memory-safety check failed (%s) but the native replay did not crash "
                                   "(unconfirmed; replay %s)" % (short, "; ".join(descs), path))
                else:
                    outcome.inconc("harness %s failed (%s) but the counterexample did not reproduce natively (%s); "
                                   "encoding or stub suspected" % (short, "; ".join(descs), note))
            entry["failed_checks"] = res["failed"][:6]
        else:
            outcome.inconc("harness %s: %s (timeout %ss; log %s)" % (short, st, timeout, run["log"]))
        samples.append(entry)
    frag = {
        "evaluations": len(sel),
        "distinct_nontrivial": n_nontrivial,
        "harnesses_passed": n_pass,
        "harnesses_total_in_tier": len(sel),
        "harnesses_defined": len(items),
        "solver_s": round(solver_s, 3),
        "symex_s": round(symex_s, 2),
        "vccs_generated": vccs,
        "kani_wall_s": round(run["wall_s"], 1),
        "samples": samples,
        "stubs": STUBS_DOC,
    }
    return frag, session
