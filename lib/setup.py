"""MANIFEST.setup_cmd: warm build caches (optional; every check also works from a cold start)."""
import os, shutil, subprocess, sys
from vcommon import CACHE_ROOT, REPO, VERIF, base_env


def build_driver(quiet=False):
    """(Re)build the driver against /repo's current tree. Returns path to the binary or raises."""
    os.makedirs(CACHE_ROOT, exist_ok=True)
    ddir = os.path.join(VERIF, "driver")
    if os.path.realpath(REPO) != "/repo":
        # development aid (ABRA_REPO points at a scratch copy, e.g. a seeded change): build a copy of the driver against that tree
        d2 = os.path.join(CACHE_ROOT, "driver_src")
        shutil.rmtree(d2, ignore_errors=True)
        shutil.copytree(ddir, d2, ignore=shutil.ignore_patterns("target", "Cargo.lock"))
        toml = open(os.path.join(d2, "Cargo.toml")).read().replace('"/repo/abra_core"', '"%s/abra_core"' % REPO)
        open(os.path.join(d2, "Cargo.toml"), "w").write(toml)
        shutil.copy(os.path.join(REPO, "Cargo.lock"), os.path.join(d2, "Cargo.lock"))
        ddir = d2
    lock = os.path.join(ddir, "Cargo.lock")
    if not os.path.exists(lock):
        shutil.copy("/repo/Cargo.lock", lock)
    env = base_env()
    env["RUSTFLAGS"] = "--cfg abra_verif"
    tgt = os.path.join(CACHE_ROOT, "driver_target")
    r = subprocess.run(["cargo", "build", "--release", "--offline", "--manifest-path", os.path.join(ddir, "Cargo.toml"),
                        "--target-dir", tgt], env=env, capture_output=True, text=True)
    if r.returncode != 0:
        raise RuntimeError("driver build failed:\n" + r.stderr[-3000:])
    return os.path.join(tgt, "release", "abra_verif_driver")


def main():
    print("building driver ...")
    print(build_driver())
    # warm Kani's dependency cache: build abra_core once with one cheap harness
    from kani_runner import KaniSession
    s = KaniSession("setup")
    r = s.run(["vm::verif::c01_calldata_roundtrip"], timeout_s=300, jobs=1)
    print("kani warm-up:", {k: v["status"] for k, v in r["results"].items()}, r["build_error"])
    cache = os.path.join(CACHE_ROOT, "kani_target")
    if not r["build_error"]:
        shutil.rmtree(cache, ignore_errors=True)
        subprocess.run(["cp", "-a", s.target, cache], check=False)
        # drop per-harness goto artifacts, keep compiled dependencies
    return 0


if __name__ == "__main__":
    sys.exit(main())
