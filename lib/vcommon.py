"""Shared plumbing for all checks: scratch dirs, evidence, known findings, exit protocol."""
import atexit
import json
import os
import re
import shutil
import subprocess
import sys
import time

VERIF = os.path.dirname(os.path.dirname(os.path.abspath(__file__)))
REPO = os.environ.get("ABRA_REPO", "/repo")
SCRATCH_ROOT = os.environ.get("ABRA_VERIF_SCRATCH", "/var/tmp/abra_verif")
CACHE_ROOT = os.environ.get("ABRA_VERIF_CACHE", "/var/tmp/abra_verif_cache")

EXIT_OK, EXIT_VIOLATION, EXIT_INCONCLUSIVE = 0, 1, 2


def tier():
    t = os.environ.get("VERIF_TIER", "quick")
    return t if t in ("quick", "thorough") else "quick"


def seed():
    try:
        return int(os.environ.get("VERIF_SEED", "0"))
    except ValueError:
        return 0


_scratch_dirs = []


def scratch_dir(tag):
    d = os.path.join(SCRATCH_ROOT, "%s_%d_%d" % (tag, os.getpid(), int(time.time())))
    os.makedirs(d, exist_ok=True)
    _scratch_dirs.append(d)
    return d


def _cleanup():
    if os.environ.get("ABRA_VERIF_KEEP"):
        return
    for d in _scratch_dirs:
        shutil.rmtree(d, ignore_errors=True)


atexit.register(_cleanup)


def copy_repo(dst):
    """Scratch copy of /repo's *current working tree* (no target/, no .git)."""
    os.makedirs(dst, exist_ok=True)
    subprocess.run(
        ["rsync", "-a", "--delete", "--exclude", "/target", "--exclude", ".git", REPO + "/", dst + "/"],
        check=True,
    )
    return dst


def base_env():
    env = dict(os.environ)
    env["CARGO_NET_OFFLINE"] = "true"
    env.pop("RUSTFLAGS", None)
    return env


# ---------------------------------------------------------------- findings
class Findings:
    """known_findings.txt:
         known: property=C09 key=<key> <what fails>
         fixed: property=C15 <commit> <what failed>
       A violation is suppressed only if (property, key) is listed as known."""

    def __init__(self, path=None):
        self.path = path or os.path.join(VERIF, "known_findings.txt")
        self.known = {}
        self.fixed = []
        if os.path.exists(self.path):
            for line in open(self.path):
                line = line.strip()
                if not line or line.startswith("#"):
                    continue
                m = re.match(r"known:\s+property=(\S+)\s+key=(\S+)\s+(.*)", line)
                if m:
                    self.known[(m.group(1), m.group(2))] = m.group(3)
                    continue
                m = re.match(r"fixed:\s+property=(\S+)\s+(.*)", line)
                if m:
                    self.fixed.append((m.group(1), m.group(2)))

    def lookup(self, prop, key):
        return self.known.get((prop, key))


# ---------------------------------------------------------------- evidence
def write_evidence(prop, level, coverage, assumptions, wall_s, violations, extra=None):
    ev = {
        "property_id": prop,
        "tier": tier(),
        "seed": seed(),
        "level": level,
        "coverage": coverage,
        "assumptions": assumptions,
        "wall_s": round(wall_s, 2),
        "violations": violations,
    }
    if extra:
        ev.update(extra)
    os.makedirs(os.path.join(VERIF, "evidence"), exist_ok=True)
    path = os.path.join(VERIF, "evidence", prop + ".json")
    tmp = path + ".tmp"
    with open(tmp, "w") as f:
        json.dump(ev, f, indent=1, sort_keys=False)
        f.write("\n")
    os.replace(tmp, path)
    try:
        import jsonschema  # available in python3-vt

        schema_path = "/root/.vp/EVIDENCE.schema.json"
        if os.path.exists(schema_path):
            try:
                jsonschema.validate(ev, json.load(open(schema_path)))
            except jsonschema.exceptions.ValidationError as e:
                # e.g. nothing could be decided in this run: the evidence stays on disk (and is not valid evidence), the check reports INCONCLUSIVE
                print("NOTE evidence for %s does not satisfy the schema: %s" % (prop, str(e).splitlines()[0]))
    except ImportError:
        pass
    return path


class Outcome:
    """Collects per-obligation results of one check and turns them into the exit protocol."""

    def __init__(self, prop):
        self.prop = prop
        self.violations = []  # (key, description, replay_path)
        self.known = []  # (key, text)
        self.inconclusive = []  # text
        self.findings = Findings()

    def violation(self, key, desc, replay_path):
        k = self.findings.lookup(self.prop, key)
        if k is not None:
            self.known.append((key, k))
        else:
            self.violations.append((key, desc, replay_path))

    def inconc(self, text):
        self.inconclusive.append(text)

    def finish(self):
        for key, text in self.known:
            print("KNOWN-FINDING: property=%s key=%s %s" % (self.prop, key, text))
        for key, desc, path in self.violations:
            print("VIOLATION property=%s replay=%s" % (self.prop, path))
            print("  what: %s :: %s" % (key, desc))
        for t in self.inconclusive:
            print("INCONCLUSIVE property=%s %s" % (self.prop, t))
        sys.stdout.flush()
        if self.violations:
            return EXIT_VIOLATION
        if self.inconclusive:
            return EXIT_INCONCLUSIVE
        return EXIT_OK
