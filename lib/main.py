"""Entry point: ./check <ID> [--tier quick|thorough] [--replay path]"""
import glob
import importlib
import os
import re
import sys
import time

sys.path.insert(0, os.path.dirname(os.path.abspath(__file__)))
import vcommon  # noqa: E402
from vcommon import VERIF, Outcome, write_evidence  # noqa: E402

sys.path.insert(0, os.path.join(VERIF, "checks"))


def scan_harnesses():
    """name -> module stem, for every harness whose name starts with cNN_ under /verif/kani."""
    out = {}
    for path in sorted(glob.glob(os.path.join(VERIF, "kani", "*.rs"))):
        stem = os.path.basename(path)[:-3]
        if stem.endswith("_playback"):
            continue
        module = stem.split("_")[0]
        src = open(path).read()
        src = re.sub(r"//[^\n]*", "", src)
        for m in re.finditer(r"(?:\bfn\s+|!\s*[\(\{]\s*(?:#\[[^\]]*\]\s*)*(?:fn\s+)?)((?:c\d\d[a-z]?|x)_\w+)", src):
            out.setdefault(m.group(1), module)
    return out


def main():
    args = sys.argv[1:]
    if not args:
        print("usage: check <ID> [--tier quick|thorough] [--replay path]")
        return 2
    prop = args[0]
    if "--tier" in args:
        os.environ["VERIF_TIER"] = args[args.index("--tier") + 1]
    if "--replay" in args:
        path = args[args.index("--replay") + 1]
        print(open(path).read())
        print("# replay: the file above is the generated native test / input; see its header for the command")
        return 0
    if prop == "--setup":
        import setup
        return setup.main()
    if prop == "--list-harnesses":
        for k, v in sorted(scan_harnesses().items()):
            print(k, v)
        return 0
    outcome = Outcome(prop)
    t0 = time.time()
    if os.path.exists(os.path.join(VERIF, "checks", prop.lower() + ".py")):
        mod = importlib.import_module(prop.lower())
        level, coverage, assumptions = mod.run(outcome, scan_harnesses())
    else:
        import ktable
        level, coverage, assumptions = ktable.run_k(prop, outcome, scan_harnesses())
    wall = time.time() - t0
    coverage.setdefault("known_findings_reported", [k for k, _ in outcome.known])
    coverage.setdefault("inconclusive", outcome.inconclusive)
    write_evidence(prop, level, coverage, assumptions, wall, len(outcome.violations))
    rc = outcome.finish()
    print("check %s tier=%s wall=%.1fs exit=%d" % (prop, vcommon.tier(), wall, rc))
    return rc


if __name__ == "__main__":
    sys.exit(main())
