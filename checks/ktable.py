"""Properties decided purely by engine K (Kani harnesses): metadata for evidence and tier selection."""
import re

from kcheck import k_check

K = {
    "C15": {
        "prefix": r"c15_",
        "thorough_only": r"_(ott|tto|oto|to|ot)$",
        "functions": ["vm::VmGreenThread::step (arms AddInt SubtractInt MulInt DivideInt Modulo PowerInt and *Imm, BitXor, "
                      "WrappingAdd, WrappingMul, the integer comparisons)", "vm::VmGreenThread::load_offset_or_top",
                      "vm::VmGreenThread::store_offset_or_top", "assembly::Reg::encode"],
        "bounds": "one real step() per harness; operands: all 2^64 x 2^64 values (symbolic payloads); register modes concrete per "
                  "harness (Top/Offset combinations the peephole optimizer can emit), offsets symbolic within a 5-slot frame; "
                  "immediates: symbolic 3-entry constant table with symbolic index; / % ^ decided through contract stubs of "
                  "i64::checked_div / checked_rem_euclid / wrapping_rem_euclid / checked_pow plus reduced-range direct harnesses "
                  "(|a| < 4096 or within 2 of MIN/MAX, |b| <= 64). Outside: negative exponents; frames larger than 5 slots; "
                  "unary minus and compound assignment forms (engine S, C02/C05).",
        "assumptions": ["Rust's documented contract of i64::checked_div, checked_rem_euclid, wrapping_rem_euclid, checked_pow "
                        "(the contract stubs return None exactly when documented and an arbitrary value otherwise)",
                        "CBMC's bit-precise model of + - * on i64/i128"],
        "rule": "one evaluation = one Kani harness (one instruction arm in one operand-mode combination) decided by CBMC over all "
                "operand values; non-trivial = verdict SUCCESS with every reachability witness (kani::cover) satisfied and a "
                "non-empty residual formula",
    },
}


def run_k(prop, outcome, harness_map):
    meta = K[prop]
    items = []
    for name, module in sorted(harness_map.items()):
        if re.match(meta["prefix"], name):
            quick = not (meta.get("thorough_only") and re.search(meta["thorough_only"], name))
            if meta.get("quick_only_list"):
                quick = name in meta["quick_only_list"]
            items.append({"module": module, "name": name, "quick": quick})
    frag, _sess = k_check(prop, outcome, items, quick_timeout=meta.get("quick_timeout", 240),
                          thorough_timeout=meta.get("thorough_timeout", 1200))
    cov = dict(frag)
    cov["rule"] = meta["rule"]
    cov["functions_encoded"] = meta["functions"]
    cov["bounds"] = meta["bounds"]
    cov["queries"] = frag["vccs_generated"]
    return "model_checking", cov, meta["assumptions"]
