"""Properties decided purely by engine K (Kani harnesses): metadata for evidence and tier selection."""
import re

from kcheck import k_check

RULE = "one evaluation = one Kani harness (one real function / one step() arm from a stated family of pre-states) decided by CBMC over all symbolic inputs; non-trivial = verdict SUCCESS with every required reachability witness (kani::cover) satisfied"

K = {
    "C15": {
        "prefix": r"c15_",
        "thorough_only": r"_(ott|tto|oto|too|to|ot)$",
        "jobs": 10,
        "functions": ["vm::VmGreenThread::step (arms AddInt SubtractInt MulInt DivideInt Modulo PowerInt and *Imm, BitXor, "
                      "WrappingAdd, WrappingMul, the integer comparisons)", "vm::VmGreenThread::load_offset_or_top",
                      "vm::VmGreenThread::store_offset_or_top", "assembly::Reg::encode", "vm::checked_pow_int"],
        "bounds": "one real step() per harness; operands: all 2^64 x 2^64 values (symbolic payloads); register modes concrete per "
                  "harness (the Top/Offset combinations the peephole optimizer can emit) with fixed in-frame offsets; immediates: symbolic "
                  "3-entry constant table; / % ^ decided through contract stubs of i64::checked_div / checked_rem_euclid / "
                  "wrapping_rem_euclid / checked_pow plus reduced-range direct harnesses (|a| < 4096 or within 2 of MIN/MAX, |b| <= 64). "
                  "Outside: negative exponents; unary minus and compound assignment forms (engine S, C02/C05).",
        "assumptions": ["Rust's documented contract of i64::checked_div, checked_rem_euclid, wrapping_rem_euclid, checked_pow "
                        "(the contract stubs return None exactly when documented and an arbitrary value otherwise)",
                        "CBMC's bit-precise model of + - * on i64/i128"],
    },
    "C16": {
        "prefix": r"c16_",
        "thorough_only": r"c16_(int_from_float|float_from_int|div_tto|divimm_to|sub_too|lt_too|ge_tto|subimm_oo|gtimm|geimm|leimm)",
        "jobs": 10,
        "functions": ["vm::VmGreenThread::step (AddFloat SubFloat MulFloat DivFloat and *Imm, the ten float comparisons, EqualFloat(Imm), "
                      "IntFromFloat, FloatFromInt)"],
        "bounds": "operands: all 2^64 bit patterns (every NaN payload, both zeros, subnormals, infinities); + - * against the Rust operator "
                  "(bit-equal), comparisons against a reference total order written on the sign-magnitude encoding; division: dividend fully "
                  "symbolic, divisor from a 10-value set (both zeros, +-1, -2, 3, MAX, MIN_POSITIVE_SUBNORMAL, inf, NaN) because two symbolic "
                  "64-bit float dividers do not finish under CBMC (measured > 400 s). Outside: ^ and the math intrinsics (no CBMC model), "
                  "decimal<->binary conversion of literals (std, trusted); int<->float conversion arms are thorough-only (slow).",
        "assumptions": ["CBMC's IEEE-754 model of + - * / on binary64", "NaN-producing operations are IEEE-conformant (CBMC's NaN checks are ignored)"],
    },
    "C17": {
        "prefix": r"c17_",
        "thorough_only": r"c17_(le_|ge_|gt_entry|gt_resume1|gt_resume2|lt_resume3|eq_resume3|concat_(i(20|30|01|02|11|32|13)|entry_(03))|.*_odest|lt_entry_ooo)",
        "jobs": 8, "quick_timeout": 600, "thorough_timeout": 1500,
        "functions": ["vm::VmGreenThread::step (EqualString LessThanString LessThanOrEqualString GreaterThanString GreaterThanOrEqualString "
                      "ConcatStrings)", "vm::StringObject::new, Value::view_string"],
        "bounds": "ONE step from every valid state: entry (operands on the stack, index 0) and in-flight states with progress index i in 1..3 "
                  "(concatenation: index pairs (i1,i2)) under the loop invariant; strings: symbolic length 0..3, symbolic ASCII bytes. The step "
                  "either finishes with the reference answer on the whole strings or advances by one byte and re-establishes the invariant, so "
                  "induction covers every slicing of the operation. Outside: the entry state of concatenation with lengths (3, 0) (solver gave up at 12 GB, measured; (0, 3), (2, 1), (0, 0) are covered), strings longer than 3 bytes (the step is length-independent but only "
                  "this bound is claimed), non-ASCII bytes (comparison is byte-wise; multi-byte text is covered at the S level only).",
        "assumptions": ["induction over steps is an argument on top of the solver-checked single steps"],
    },
    "C01": {
        "prefix": r"c01_",
        "thorough_only": r"c01_(call_returnvoid_3|call_return_2|get_field_1_t|set_field_1_t|construct_struct_0|not_oo|push_bool|push_addr)",
        "jobs": 12,
        "functions": ["vm::VmGreenThread::step (stack, constant, jump, call/return, struct/variant/closure arms, Not, EqualBool, string intrinsics)",
                      "vm::VmGreenThread::load_offset_or_top / store_offset_or_top", "assembly::Reg::encode", "vm::CallData"],
        "bounds": "one real step() (or a 2-step call/return pair) per harness from a 5-slot frame with symbolic payloads and the operand tags the "
                  "compiler guarantees; a tag mismatch, underflow or Rust panic is a failed check. Register decoding: loads for every 15-bit offset (symbolic); stores for the concrete offsets of the arm harnesses (a store through a symbolic offset aborts CBMC at 20 GB, measured: not claimed). "
                  "Program-level faults (operand-stack discipline across instructions) are covered by the S part of ./check C02. "
                  "Outside: tasks at program level, FFI.",
        "assumptions": [],
    },
    "C06": {
        "prefix": r"c06_",
        "jobs": 8, "quick_timeout": 900, "thorough_timeout": 1800,
        "functions": ["vm::VmGreenThread::{start_mark_phase, mark, process_gray, write_barrier}", "object constructors (allocation colour)",
                      "step() arms SetIndex SetField ArrayPush (barrier call sites)"],
        "bounds": "single collector / mutator steps on two- and three-object heaps with symbolic or enumerated colours (white/gray/black): "
                  "write barrier (G1), allocation colour (G2), one process_gray iteration per object kind (G3), the Marking->Sweeping switch with "
                  "a white root on the stack or in a parked string operand (G4), root scan (G6). The composition 'strong tricolour invariant + "
                  "root rescan at drain time => no reachable object is swept' is an argument, not a solver result. Outside: whole cycles, "
                  "channels as GC roots, FFI threads.",
        "assumptions": ["composition of the one-step obligations into whole collection cycles is argued in kani/vm_gc.rs"],
    },
    "C08": {
        "prefix": r"c08_", "jobs": 8, "quick_timeout": 900,
        "functions": ["vm::VmGreenThread::step (SpawnTask)", "vm::Value::deep_copy (all value kinds)", "ChannelObject::copy"],
        "bounds": "one real SpawnTask step with one capture of each kind: int / float / bool (symbolic payload), string <= 2 symbolic bytes, array of 0/2 symbolic "
                  "ints, array of strings, struct{int, array}, variant(symbolic tag){closure[code, int]}, channel; nesting <= 2; recursion of "
                  "deep_copy and all loops unwound 4 times with unwinding assertions (a deeper structure would fail the assertion, not pass silently). "
                  "The scheduler queue (mpsc) is a ghost slot. Outside: deeper nesting, cyclic structures (not constructible in Abra).",
        "assumptions": [],
    },
    "C09": {
        "prefix": r"c09_", "jobs": 8, "quick_timeout": 900,
        "functions": ["vm::VmGreenThread::step (ChannelWrite, ChannelRead on an empty channel)", "ChannelObject::{read_value, write_value, copy}",
                      "ChannelValue::from_value (string, scalar), the string / scalar cases of ChannelValue::into_value"],
        "bounds": "one real ChannelWrite step onto queues of 0, 1 or 2 symbolic values: appends at the back, never blocks, and what it queues owns its "
                  "contents (not a pointer into the writer's heap: a finished writer is dropped by the scheduler and its heap freed); the real "
                  "ChannelObject::read_value on queues of 1, 2 or 3 symbolic values takes the front and keeps the rest in order; a real ChannelRead "
                  "step on an empty channel rewinds pc only; the conversions out of the writer's heap and into the reader's heap for strings <= 2 "
                  "bytes and scalars. Order and exactly-once follow by induction over these steps. Outside: the non-empty path of the ChannelRead "
                  "arm as a whole (read_value -> into_value -> push: the arm owns an Option<ChannelValue>, a recursive type whose drop glue CBMC "
                  "cannot fold, > 900 s measured), arrays / structs / variants / channels in flight (same recursion), OS threads, queues longer than 3.",
        "assumptions": ["std::collections::VecDeque and Mutex behave as documented (single-threaded under Kani)"],
    },
    "C31": {
        "prefix": r"c31_", "jobs": 4,
        "functions": ["parse::Parser::{parse_binop, parse_prefix_op, parse_postfix_op}", "BinaryOperator::precedence, PrefixOp::precedence, PostfixOp::precedence"],
        "bounds": "operator tables against book/src/language_reference/operators.md for a symbolic token (17 token kinds); prefix-operator "
                  "recognition for a symbolic following token. Outside: the Pratt loop itself (measured out of reach: every current_token() "
                  "clones a Token owning a String) -- grouping beyond what the tables imply is not claimed.",
        "assumptions": [],
    },
    "C36": {
        "prefix": r"c36_", "jobs": 8, "quick_timeout": 900,
        "thorough_only": r"c36_(vec_int_2|result_int_string)",
        "functions": ["host_bindings::VmType impls for AbraInt, f64, bool, String, (), Option<T>, Result<T,E>, Vec<T>, tuples", "the VM heap constructors they call"],
        "bounds": "round trip v.to_vm(); T::from_vm() == v with the stack depth restored, values symbolic: int, float (bitwise), bool, String <= 2 "
                  "bytes, (int,bool), (int,String,bool), Option<int>, Option<(int,bool)>, Result<int,String>, Result<(),int>, Vec<int> of length "
                  "0 and 2 (Vec<Option<bool>> does not finish under CBMC at the 12 GB cap, measured: outside); argument order for a 3-argument host function. Outside: generated code for user "
                  "structs/enums (generate_host_function_enum needs the whole front end), the C ABI flavour.",
        "assumptions": [],
    },
    "C30": {
        "prefix": r"c30_scan", "jobs": 2,
        "functions": ["parse::lexer::scan_for_unescaped_delim"],
        "bounds": "string bodies of exactly 4 symbolic characters over {backslash, quote, a, newline}, with and without stop_at_newline: returns "
                  "the first delimiter not escaped by a backslash. handle_num and process_escapes_into did not finish under CBMC (measured "
                  "1500 s; String::push with symbolic chars) and are NOT claimed; str::parse is std.",
        "assumptions": [],
    },
}
for _k in K.values():
    _k.setdefault("rule", RULE)


def run_k(prop, outcome, harness_map):
    meta = K[prop]
    items = []
    for name, module in sorted(harness_map.items()):
        if re.match(meta["prefix"], name):
            quick = not (meta.get("thorough_only") and re.search(meta["thorough_only"], name))
            if meta.get("quick_only_list"):
                quick = name in meta["quick_only_list"]
            items.append({"module": module, "name": name, "quick": quick})
    frag, _sess = k_check(prop, outcome, items, quick_timeout=meta.get("quick_timeout", 400),
                          thorough_timeout=meta.get("thorough_timeout", 1200), jobs=meta.get("jobs"))
    cov = dict(frag)
    cov["rule"] = meta["rule"]
    cov["functions_encoded"] = meta["functions"]
    cov["bounds"] = meta["bounds"]
    cov["queries"] = frag["vccs_generated"]
    return "model_checking", cov, meta["assumptions"]
