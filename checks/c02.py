"""C02: compiled programs compute what the reference says -- engine S (compiler output) vs reference semantics R."""
import os
import random
import sys

sys.path.insert(0, os.path.join(os.path.dirname(os.path.abspath(__file__)), "..", "symex"))
import gen  # noqa: E402
import tvrun  # noqa: E402
from vcommon import seed, tier  # noqa: E402


def run(outcome, _harnesses):
    core = gen.core_templates()
    pos = gen.operand_position_templates()
    extra = gen.lambda_templates() + gen.try_templates()
    templates = [t for t in core if "C02" in t["tags"]] + pos
    if tier() == "thorough":
        templates += extra
    else:
        rng = random.Random(seed())
        templates += rng.sample(extra, min(8, len(extra)))
    cov = tvrun.run_templates("C02", outcome, templates, modes=("opt",))
    cov["rule"] = ("one evaluation = one template program: all bytecode paths (engine S on the real compiler's output) x all reference paths "
                   "(R, a direct interpreter of the template AST); for every jointly satisfiable pair z3 must refute 'different termination "
                   "status, final value or printed output'; engine S additionally flags any reachable wrong-tag / stack-discipline fault; "
                   "non-trivial = verdict holds. traces_validated_against_impl = concrete inputs (one per S path, from the path condition) "
                   "run on the real VM and compared with what S predicts (validation of the S model itself)")
    cov["functions_encoded"] = ["the whole pipeline parse -> check -> translate_bytecode -> optimize (run for real on every template)",
                                "vm instruction model of engine S (/verif/symex/svm.py)", "reference semantics R (/verif/symex/refsem.py)"]
    cov["bounds"] = ("templates: %d (arithmetic with every operator in variable/literal/compound form, comparisons, evaluation order, "
                     "short-circuit, scoping, loops with break/continue, recursion to depth 3, early return, aliasing of arrays and structs, "
                     "void in data structures, prints; every control-transferring expression {break, continue, return, ?, !, failing division} "
                     "in every operand position {left, right, first/last argument, array element, index, nested}; lambdas and ?/! samples). "
                     "Inputs: all 64-bit ints / bools per parameter. Loops are bounded by literals (<= 4 iterations). Outside: floats, strings "
                     "as data, enums (C12-C14), tasks, generics (C22)." % len(templates))
    return "translation_validation", cov, ["R (refsem.py) is the reference semantics, written from the language reference",
                                           "the S instruction model, validated on every run against the real VM on concrete inputs"]
