"""What is claimed (MANIFEST.checks) and what is not (MANIFEST.not_applicable)."""
K_NOTE = ("Trusted: Kani's MIR->goto translation and CBMC's bit-precise semantics; the stubs listed in the evidence "
          "(VmGreenThread::fail -> panic, location/trace -> empty, mpsc send -> ghost slot); the bound is one real step() per "
          "harness from the stated pre-state family; composition across steps is argued in DESIGN.md, not solver-checked.")
S_NOTE = ("Trusted: the symbolic bytecode executor's instruction model (/verif/symex/svm.py), tied to the real VM by the K arm harnesses "
          "(same arms, real step()) and by the concrete differential run of ./check C02; z3. The compiler itself is NOT trusted: it is run "
          "for real and its output is what is executed symbolically. Counterexamples are replayed on the real VM through the driver.")
CLAIMS = {
    "C15": {
        "engine": "K", "level": "model_checking",
        "technique": "bounded model checking of the real VM step() with Kani/CBMC (SAT), i128 oracle, contract stubs for / % ^",
        "text": "Every integer arm of the real VM step() is decided by CBMC for all 2^64 x 2^64 operand values against exact "
                "128-bit arithmetic (+ - * comparisons, wrapping ops), and for / % ^ against contract stubs of the std primitive "
                "plus reduced-range direct harnesses; a wrong result, wrong error kind, wrong operand order or stack effect for any "
                "operand pair is a counterexample that is replayed natively. Unit tests sample a handful of pairs.",
        "note": K_NOTE + " Rust's documented contract of i64::checked_div/checked_rem_euclid/wrapping_rem_euclid/checked_pow.",
    },
}
CLAIMS["C38"] = {
    "engine": "M", "level": "model_checking",
    "technique": "symbolic execution of the nightly MIR of Arena::alloc<T> into 64-bit bit-vectors; obligations decided by z3, cross-checked by cvc5; Miri replay",
    "text": "The MIR of the generic Arena::alloc<T>, re-dumped from the current source on every run, is executed symbolically; for every "
            "pre-state satisfying the arena invariant and every (size, align) Rust permits (within the stated bounds) z3 decides that no "
            "arithmetic check fails, the pointer arithmetic and the write stay inside the buffer that is current after the call, the write is "
            "aligned on the actual address, does not overlap earlier allocations, and the invariant is re-established -- one inductive step that "
            "covers allocation sequences of any length. A violated obligation is re-solved for a small pre-state, turned into a concrete "
            "with_capacity/alloc sequence and run under Miri; VIOLATION only if Miri reports UB or the replay's assertions fail.",
    "note": "Trusted: the summaries of 12 library calls listed in the evidence; nightly MIR == stable semantics for this function; Rust layout rules. "
            "Bounds: offset <= len < 2^48, size < 2^40, align <= 4096. Sequences are covered only through the invariant.",
}
CLAIMS["C24"] = {
    "engine": "S", "level": "model_checking",
    "technique": "symbolic execution of the compiled prelude (bytecode from the real compiler) with z3; each law refuted by the solver over all values",
    "text": "The comparison, equality and hash code of the prelude is compiled by the real compiler; the symbolic executor extracts, for every "
            "operator and type, the complete set of bytecode paths as formulas over symbolic arguments (64-bit ints, all float bit patterns, bools, "
            "strings <= 2 bytes, tuples, arrays <= 2); z3 then has to refute the negation of each law (equivalence, negation, total order "
            "consistent with ==, hash congruence). A model is a concrete (a, b, c) that is re-run on the real VM.",
    "note": S_NOTE,
}
CLAIMS["C25"] = {
    "engine": "S", "level": "model_checking",
    "technique": "symbolic execution of the compiled sort code with z3 (all comparison outcomes as forks), order/stability refuted per path",
    "text": "sort, sort_by and sort_by_key are executed symbolically on arrays of tagged elements with symbolic keys: every comparison outcome "
            "is a fork, so for n <= 4 (5 thorough) all n! orders are covered for ALL key values, and for n = 33/34 (35/65/66 thorough) the 32-element "
            "run boundary and the merge rounds are crossed with symbolic keys against a duplicate-heavy concrete background. Per path z3 refutes "
            "'out of order or equal keys swapped or element altered'; permutation is checked by element identity.",
    "note": S_NOTE + " Fully symbolic arrays beyond 5 elements are outside the bound (n! paths).",
}
CLAIMS["C27"] = {
    "engine": "S", "level": "model_checking",
    "technique": "symbolic execution of the compiled core/map and core/set with z3 against a dictionary model with symbolic key equality",
    "text": "Operation sequences over a fresh map<int,int> / set<int> are compiled by the real compiler and executed symbolically with symbolic "
            "64-bit keys and values (so i64::MIN, colliding bucket indices and duplicate keys are inside the space); for every bytecode path z3 "
            "must refute that the observations differ from an association-list model with z3 key equality, or that the path ends in a runtime "
            "error. Counterexamples are replayed on the real VM against a Python dict.",
    "note": S_NOTE + " Sequences are enumerated (stated in the evidence); keys are ints only.",
}
MATCH_NOTE = S_NOTE + " The program dimension (types, patterns, arm lists) is a generated finite family stated in the evidence; the value dimension is the solver's. The pattern semantics in checks/matchlib.py is the reference."
CLAIMS["C12"] = {
    "engine": "S", "level": "model_checking",
    "technique": "z3 decides exhaustiveness over all values of each template's type; compared with the real checker's verdict and its listed missing cases",
    "text": "For every match template of a bounded family the real checker is run; its verdict is compared with z3's over the whole value "
            "space of the scrutinee type (all 64-bit ints, all float bit patterns, strings, every variant/shape): accepted => no value escapes "
            "every arm; reported gap => some value does, and each printed missing case is parsed and must cover such a value.",
    "note": MATCH_NOTE,
}
CLAIMS["C13"] = {
    "engine": "S", "level": "model_checking",
    "technique": "z3 decides reachability of each arm (matches it and no earlier arm) over all values; compared with the redundant arms the real checker reports",
    "text": "For every arm of every template z3 decides whether some value reaches it; the checker must report exactly the unreachable arms "
            "as redundant. Literal patterns are compared by value, so alternative spellings (1.0 / 1.00) coincide.",
    "note": MATCH_NOTE,
}
CLAIMS["C14"] = {
    "engine": "S", "level": "translation_validation",
    "technique": "symbolic execution of the compiled match (real compiler output) vs the first-matching-arm reference, z3 per path",
    "text": "Every accepted template is compiled by the real compiler and executed symbolically over a symbolic scrutinee of every shape; per "
            "bytecode path and arm, z3 refutes that the reference selects that arm while the compiled code returns another arm index or "
            "different bindings (or-patterns, struct and variant fields, void components included).",
    "note": MATCH_NOTE + " let/for destructuring is exercised only through the prelude code paths of other checks.",
}
CLAIMS["C26"] = {
    "engine": "K+S", "level": "model_checking",
    "technique": "Kani/CBMC on the array arms of the real step(); symbolic execution of compiled array operation sequences vs a list model with z3",
    "text": "K: GetIndex/SetIndex with symbolic index and length 0..3 (error iff out of range, exact element/update), ArrayPush (growth and "
            "accounting), ArrayPop (empty included), ArrayLength, Construct/DeconstructArray on the real step(). S: operation sequences over "
            "{push, pop, len, is_empty, get, set, swap, remove, clear, find, contains, clone, filled} compiled by the real compiler and executed "
            "symbolically with symbolic values and indices; a list model is replayed under each path condition and z3 proves observations and "
            "termination status equal.",
    "note": K_NOTE + " " + S_NOTE,
}
CLAIMS["C28"] = {
    "engine": "S", "level": "model_checking",
    "technique": "symbolic execution of the compiled ToString code; rendered token stream matched against the documented format, leaf agreement by z3",
    "text": "str/`..` rendering of every value shape of nested built-in types (arrays 0..2, both variants of options/results, tuples, strings, "
            "nil) is executed symbolically on the compiled prelude; the rendered token stream must equal the documented format token by token "
            "and z3 refutes that a rendered true/false or integer token disagrees with the symbolic leaf.",
    "note": S_NOTE + " i64::to_string behind StringFromInt is trusted (opaque decimal-of token).",
}
TV_NOTE = (S_NOTE + " R (/verif/symex/refsem.py), a symbolic interpreter of the source AST written from the language reference, is the "
           "reference semantics and is trusted; the program dimension is a generated finite template family stated in the evidence, the value "
           "dimension (all 64-bit ints, bools, array contents) is the solver's.")
CLAIMS["C02"] = {
    "engine": "S+R", "level": "translation_validation",
    "technique": "translation validation: symbolic execution of the real compiler's bytecode vs a symbolic reference interpreter of the source; z3 decides every joint path pair",
    "text": "Each template program is compiled by the real compiler; engine S enumerates every bytecode path with symbolic inputs and the "
            "reference interpreter R enumerates every source-level path; for every pair of path conditions that is jointly satisfiable z3 must "
            "refute that results, printed output or the way the run ends differ. This covers all inputs of each template (overflow, division by "
            "zero, out-of-range index, short-circuit, control transfer out of operand positions), where a test fixes one input. Disagreements are "
            "replayed on the real VM; known findings are keyed by template.",
    "note": TV_NOTE,
}
CLAIMS["C05"] = {
    "engine": "S+R", "level": "translation_validation",
    "technique": "translation validation with the peephole optimizer on and off (hook ABRA_VERIF_NO_OPT): symbolic execution of both bytecodes vs the reference, z3 per joint path; literal vs variable operand forms compared by z3; Kani/CBMC on every immediate arm of the real step()",
    "text": "Every operator template in variable, literal-operand (0, 1, -1, 7, MAX, MIN), literal-left and compound-assignment form is compiled "
            "twice by the real compiler (optimizer on / off) and both bytecodes are validated against R for all inputs; float immediates are "
            "compared S-vs-S with the variable form for all non-NaN x, and the constant fold of 1.0 / 0.0 must keep the error. A fold rule that "
            "differs for one operand value is a z3 model, replayed on the real VM. The immediate arms of the real step() themselves are decided by "
            "CBMC for all operand values against the oracle of the variable arms (C15 / C16 harness families, *Imm members).",
    "note": TV_NOTE + " The Kani-level validation of optimize() itself did not finish (900 s, Vec<Line> with String payloads) and is not part of the claim.",
}
CLAIMS["C18"] = {
    "engine": "S", "level": "model_checking",
    "technique": "symbolic execution of the real compiler's bytecode for every call shape (names, order, omissions) with symbolic argument values; z3 refutes any difference from the positional call",
    "text": "All parameter lists of arity <= 3 with every defaulted suffix and every call shape (positional prefix, every permutation of named "
            "arguments, every omission of defaulted parameters) for free functions, member functions, struct constructors and enum variant "
            "constructors are compiled by the real compiler; the callee returns its parameters and z3 refutes, for all argument values, that any "
            "parameter receives a value other than in the positional call with defaults filled in. A call shape the compiler panics on is a "
            "violation. The diagnostics half of the property is not claimed.",
    "note": S_NOTE,
}
CLAIMS["C19"] = {
    "engine": "S+R", "level": "translation_validation",
    "technique": "translation validation of closure capture templates: symbolic execution of compiled lambdas vs reference closures, z3 per joint path",
    "text": "Lambda templates (capture of locals / parameters / outer captures at nesting depth <= 3, capture by value at creation, lambdas "
            "stored in arrays and returned from functions, multiple closures over the same variable) are compiled by the real compiler and "
            "validated against R for all values of the captured variables and arguments.",
    "note": TV_NOTE,
}
CLAIMS["C23"] = {
    "engine": "S+R", "level": "translation_validation",
    "technique": "translation validation of `?`/`!` templates over symbolic option/result values: symbolic execution of the compiled code vs the reference, z3 per joint path",
    "text": "Templates using `?` and `!` on option and result values in statement, operand, loop and nested-function positions are compiled by the "
            "real compiler; the scrutinee's variant and payload are symbolic, so both the pass-through and the early-return/abort path are "
            "covered for all payloads, and z3 must refute a difference in result, output or termination against R.",
    "note": TV_NOTE,
}
M2_NOTE = ("Trusted: engine M2 (/verif/mir/mirvm.py), a symbolic interpreter of the nightly MIR text of the named functions (re-dumped from /repo on every run); "
           "the library summaries listed in the evidence; nightly MIR == stable semantics for these functions; z3. Unknown MIR constructs or calls make the "
           "check INCONCLUSIVE, never a pass. Counterexamples are replayed on the real functions in a native test before they are reported.")
CLAIMS["C01"] = {
    "engine": "K+S+R", "level": "model_checking",
    "technique": "bounded model checking of the real VM step() arms with Kani/CBMC from symbolic frames (tag discipline, stack effect, no Rust panic); symbolic execution of compiled stack-discipline templates (engine S vs R, z3), internal fault = violation",
    "text": "Every stack, constant, jump, call/return, struct/variant/closure, boolean and string-intrinsic arm of the real step() is run by CBMC from a "
            "frame with symbolic payloads and the operand tags the compiler guarantees: a tag mismatch (internal fault), an underflow, a wrong stack "
            "effect or a Rust panic is a failed check; the register decoding is checked for every 15-bit offset. Whole-program faults (operand stack "
            "desynchronisation across instructions) are decided by the symbolic execution of compiled templates in ./check C02, where an internal fault "
            "is a violation. The C01 check itself also runs the templates tagged C01 (thorough: the whole family).",
    "note": K_NOTE + " " + S_NOTE,
}
CLAIMS["C06"] = {
    "engine": "K", "level": "model_checking",
    "technique": "Kani/CBMC on single collector and mutator steps of the real tricolour GC (write barrier, allocation colour, process_gray per object kind, Marking->Sweeping switch, root scan)",
    "text": "One-step obligations on the real collector code over small heaps with symbolic/enumerated colours: the write barrier re-grays, objects "
            "allocated during a cycle are not white, one process_gray iteration blackens an object and grays its white children for every object kind, "
            "the switch to sweeping happens only when no root (operand stack, parked string operands) is white, the root scan grays every root. "
            "Together they imply that no reachable object is swept; the implication is an argument, each step is solver-checked.",
    "note": K_NOTE,
}
CLAIMS["C07"] = {
    "engine": "K+M2", "level": "model_checking",
    "technique": "Kani/CBMC on one sweep step and the pacing trigger; symbolic execution of the MIR of the Drop implementations and ObjectHeader::dealloc with z3 (every object released exactly once)",
    "text": "Reclamation: one real sweep iteration over a two-object heap with symbolic mark bits frees exactly the unmarked object, keeps the accounting and "
            "ends the phase; the pacing trigger fires for all heap sizes when the heap doubled. Release on drop: the MIR of Drop for VmGreenThread, "
            "ObjectHeader::dealloc and Drop for VmSharedReadonly is executed over heaps of 0..3 objects of symbolic kind and size: every object and every "
            "string constant is released exactly once, as its own kind, and heap_size returns to zero.",
    "note": K_NOTE + " " + M2_NOTE,
}
CLAIMS["C08"] = {
    "engine": "K", "level": "model_checking",
    "technique": "Kani/CBMC on one real SpawnTask step per capture kind (deep_copy recursion unwound with unwinding assertions)",
    "text": "One real SpawnTask step with a capture of every value kind (symbolic scalars, strings, arrays of ints and of strings, struct with a nested "
            "array, variant holding a closure, channel): the new task's value is a fresh object graph in the task's own heap with equal contents, the "
            "spawner's stack loses exactly the captures, a mutation of the original is invisible in the copy, and a channel stays shared.",
    "note": K_NOTE,
}
CLAIMS["C09"] = {
    "engine": "K", "level": "model_checking",
    "technique": "Kani/CBMC on single real ChannelWrite steps, the real read_value, the empty ChannelRead step and the string / scalar conversions, over queues of 0..3 symbolic values",
    "text": "One-step harnesses: a real ChannelWrite appends at the back, never blocks and queues a value that owns its contents (so it survives the "
            "writer: a finished task is dropped and its heap freed); the real read_value takes the front element and keeps the rest in order; a read "
            "on an empty channel only rewinds the reader; a string is copied out of the writer's heap and into the reader's heap with equal contents. "
            "By induction every written value is read once, in order. The non-empty path of the ChannelRead arm as a whole and compound values in "
            "flight are outside (recursive drop glue of ChannelValue under CBMC, measured).",
    "note": K_NOTE + " std::collections::VecDeque and Mutex behave as documented.",
}
CLAIMS["C10"] = {
    "engine": "M2+K", "level": "model_checking",
    "technique": "symbolic execution of the MIR of vm::Runtime (scheduler) against scripted threads: run(b1);run(b2) vs run(b1+b2) compared by z3 on every joint path; Kani on the thread layer",
    "text": "The real scheduler code (MIR of run_n_steps, run_threads_round_robin, finish_thread_turn, drain_new_threads, update_status_helper, try_get_main) "
            "is executed symbolically with every thread's behaviour an unbounded script of symbolic outcomes and symbolic budgets; slicing a budget in two "
            "must step the same threads in the same order and end in the same status. The thread layer (run_n_steps(n) = n single steps, each preceded by "
            "one collector increment) is a Kani harness; resumable string instructions keep their progress in the thread (C17).",
    "note": M2_NOTE + " " + K_NOTE,
}
CLAIMS["C11"] = {
    "engine": "M2+K", "level": "model_checking",
    "technique": "symbolic execution of the MIR of vm::Runtime against scripted threads with z3 (status truthfulness obligations per path, one and two calls); Kani on the Stop / HostFunc / Panic arms",
    "text": "For every script of thread outcomes, every valid initial queue state and every budget within the bound, z3 refutes on each path of the real "
            "scheduler MIR that the reported status lies: Done iff main finished (whatever other tasks do), MainThreadError iff main failed (with main's "
            "error), PendingHostFunc iff a thread waits for the host, steps_consumed = executed steps <= budget, no finished or waiting thread is stepped, "
            "top() after Done is main's last value. The arms that set those flags (Stop, HostFunc with arguments and resume value, Panic) are Kani harnesses on the real step().",
    "note": M2_NOTE + " " + K_NOTE,
}
CLAIMS["C16"] = {
    "engine": "K", "level": "model_checking",
    "technique": "bounded model checking of the float arms of the real step() with Kani/CBMC over all 2^64 bit patterns (IEEE-754 in CBMC)",
    "text": "Every float arithmetic and comparison arm (variable and immediate forms) is decided for all operand bit patterns against the Rust operator / "
            "a reference total order on the encoding; division by +-0.0 must raise the division-by-zero error in both forms; int<->float conversions (thorough).",
    "note": K_NOTE + " CBMC's IEEE-754 model; division with two symbolic operands does not finish (divisor from a 10-value set).",
}
CLAIMS["C17"] = {
    "engine": "K", "level": "model_checking",
    "technique": "Kani/CBMC on ONE real step of each resumable string instruction from every valid in-flight state (loop invariant), strings of symbolic length <= 3",
    "text": "String comparison and concatenation are resumable: from the entry state and from every in-flight state (progress index i, or (i1,i2)) satisfying "
            "the loop invariant, one real step either finishes with the reference answer on the whole strings or advances by one byte and re-establishes "
            "the invariant. Induction over steps then covers every way the scheduler can slice the operation.",
    "note": K_NOTE,
}
CLAIMS["C30"] = {
    "engine": "M2+K", "level": "model_checking",
    "technique": "symbolic execution of rustc MIR (engine M2, z3) of the real Lexer::handle_num / peek_char / emit_with_skipped / TokenKind::nchars over "
                 "symbolic characters and of the literal arms of Parser::parse_expr_term over tokens of symbolic digits (std str::parse replaced by its "
                 "contract); Kani/CBMC on the real lexer kernel scan_for_unescaped_delim over 4 symbolic characters",
    "text": "PARTIAL. Numbers: for every string of <= 5 (thorough 6) Unicode characters after a concrete prefix, the real number lexer emits exactly one "
            "token whose kind (int / float), text (the digits in order with every '_' removed), span and end position equal a fold specification, without "
            "a Rust panic; for tokens of 1..20 symbolic digits the real literal arms of parse_expr_term build Int(v) iff the spelled (possibly negated) "
            "value lies in the i64 range, with v that value, report a diagnostic iff it does not, and hand the exact (negated) text of a float literal on. "
            "Strings: only the delimiter scan is claimed (4-character bodies over {backslash, quote, letter, newline}). Escape processing, indentation "
            "stripping, literal patterns and the translator's parse of float text are not claimed.",
    "note": "bounded: characters after the literal's start <= 5/6, digits <= 20 (21 thorough); std::str::parse is trusted (contract summary). " + M2_NOTE + " " + K_NOTE,
}
CLAIMS["C31"] = {
    "engine": "K", "level": "model_checking",
    "technique": "Kani/CBMC on the real operator-recognition kernels and precedence tables of the Pratt parser with symbolic tokens, against the documented table",
    "text": "PARTIAL: for a symbolic token the real parse_binop / parse_prefix_op / precedence tables agree with book/src/language_reference/operators.md, "
            "and a leading minus groups the same for a literal and a variable operand for every following token. The Pratt loop itself is out of reach "
            "(every current_token() clones a String-owning token), so grouping of whole expressions is only claimed as far as the tables imply it.",
    "note": K_NOTE,
}
CLAIMS["C32"] = {
    "engine": "K+M2", "level": "model_checking",
    "technique": "Kani/CBMC on the VM's real location lookup and stack-trace order over symbolic tables; symbolic execution of the MIR of create_source_location_tables with z3",
    "text": "VM side: for symbolic tables and pc the real binary-search lookup names the entry covering the failing instruction (pc - 1) and the traceback lists "
            "call sites innermost first. Compiler side: for line lists of <= 5 instructions with interleaved labels and symbolic (line, file, function) "
            "triples the tables built by the real create_source_location_tables give every instruction its own triple under that lookup rule.",
    "note": K_NOTE + " " + M2_NOTE,
}
CLAIMS["C36"] = {
    "engine": "K", "level": "model_checking",
    "technique": "Kani/CBMC round trip through the real host_bindings::VmType impls and VM heap constructors with symbolic values",
    "text": "v.to_vm(); T::from_vm() returns v and restores the stack depth, for symbolic ints, floats (bitwise), bools, strings <= 2 bytes, tuples, "
            "Option, Result, Vec<int>; host-function arguments arrive in declaration order.",
    "note": K_NOTE,
}
NOT_APPLICABLE = {
    "C03": "quantifies over programs only; the failing behaviour is a panic inside the translator for a program shape. The program cannot be made symbolic through the parser/resolver/type checker (one hash-map insert = 1.7 M SAT variables, measured).",
    "C20": "decided entirely inside the resolver/type checker for a given program; no value-level quantifier for a solver to discharge.",
    "C21": "name resolution over multi-file programs: program-only quantifier through hash-map heavy code, out of reach of CBMC (measured) and not expressible as a bytecode-level property.",
    "C22": "dispatch is decided by the monomorphiser for a given program; program-only quantifier.",
    "C34": "whole front-end pipeline over symbolic source text and cursor offsets; out of reach (lexer alone on 3 symbolic chars did not finish in 20 min).",
    "C35": "same pipeline as C34 plus agreement with the resolver's map.",
    "C04": "the lexer's tokenize loop over symbolic characters does not finish under CBMC (measured: 2 symbolic characters > 1500 s; every token owns a String); no MIR-level model of char/String code was built.",
    "C29": "comment skipping lives in the same tokenize loop (String::push / char iteration); only the 0-character case finished under CBMC (measured), which is not a claim worth making.",
    "C33": "span arithmetic is spread over the tokenize loop and codespan's line index (external crate); out of reach for the same reason as C04.",
    "C37": "hashbrown-backed container: one IdSet insert costs CBMC 1.7 M variables / 2 min, insert+clone+drop exceeded 41 GB (measured).",
}
# properties planned but not yet built are listed here with the reason "not built yet" until their check exists
PENDING = {}
for _p in ["C01", "C02", "C04", "C05", "C06", "C07", "C08", "C09", "C10", "C11", "C12", "C13", "C14", "C16", "C17", "C18", "C19", "C23",
           "C24", "C25", "C26", "C27", "C28", "C29", "C30", "C31", "C32", "C33", "C36", "C38"]:
    if _p not in CLAIMS:
        NOT_APPLICABLE.setdefault(_p, "check not built yet in this session (planned, see DESIGN.md section 4)")
