"""C25: sort / sort_by / sort_by_key yield a sorted permutation, stably -- engine S over the compiled prelude."""
import os
import sys
import time

sys.path.insert(0, os.path.join(os.path.dirname(os.path.abspath(__file__)), "..", "symex"))
import z3  # noqa: E402
import api  # noqa: E402
import bytecode  # noqa: E402
from svm import I, InternalFault, Unsupported  # noqa: E402
from vcommon import VERIF, tier  # noqa: E402


def gen_sort_by_key(name, n_total, sym_positions, background):
    """array of (key, tag) tuples; tag = original index; keys symbolic at sym_positions, else background[i]"""
    params = ["k%d: int" % i for i in sym_positions]
    elems = []
    for i in range(n_total):
        k = "k%d" % i if i in sym_positions else str(background[i])
        elems.append("(%s, %d)" % (k, i))
    body = "  let a = [%s]\n  a.sort_by_key((p: (int, int)) -> { let (k, t) = p\n   k })\n  a\n" % ", ".join(elems)
    return "fn %s(%s) -> array<(int, int)> {\n%s}\n" % (name, ", ".join(params), body)


def gen_sort_by_desc(name, n):
    params = ["k%d: int" % i for i in range(n)]
    elems = ["(k%d, %d)" % (i, i) for i in range(n)]
    body = ("  let a = [%s]\n  a.sort_by((p: (int, int), q: (int, int)) -> { let (k1, t1) = p\n  let (k2, t2) = q\n  k1 >= k2 })\n  a\n"
            % ", ".join(elems))
    return "fn %s(%s) -> array<(int, int)> {\n%s}\n" % (name, ", ".join(params), body)


def gen_sort_plain(name, n):
    params = ["k%d: int" % i for i in range(n)]
    body = "  let a = [%s]\n  a.sort()\n  a\n" % ", ".join("k%d" % i for i in range(n))
    return "fn %s(%s) -> array<int> {\n%s}\n" % (name, ", ".join(params), body)


def cases(t):
    cs = []
    for n in ([0, 1, 2, 3, 4] if t != "thorough" else [0, 1, 2, 3, 4, 5]):
        cs.append(("key", "vf_key_%d" % n, n, list(range(n)), None, False))
    for n in ([3] if t != "thorough" else [2, 3, 4]):
        cs.append(("desc", "vf_desc_%d" % n, n, list(range(n)), None, True))
    for n in ([3, 4] if t != "thorough" else [2, 3, 4, 5]):
        cs.append(("plain", "vf_plain_%d" % n, n, list(range(n)), None, False))
    # run boundary (RUN = 32) and merge rounds: mostly concrete background with duplicates, a few symbolic keys
    def bg(n):
        return [10 * ((i // 2) % 9) for i in range(n)]  # duplicates, unsorted across runs
    cs.append(("key", "vf_key_33", 33, [32], bg(33), False))
    cs.append(("key", "vf_key_34", 34, [5, 33], bg(34), False))
    if t == "thorough":
        cs.append(("key", "vf_key_65", 65, [64], bg(65), False))
        cs.append(("key", "vf_key_66", 66, [31, 65], bg(66), False))
        cs.append(("key", "vf_key_35", 35, [0, 32, 34], bg(35), False))
    return cs


def run(outcome, _harnesses):
    t = tier()
    cs = cases(t)
    src = ""
    calls = []
    for kind, name, n, sym, background, desc in cs:
        if kind == "key":
            src += gen_sort_by_key(name, n, sym, background or [0] * n)
        elif kind == "desc":
            src += gen_sort_by_desc(name, n)
        else:
            src += gen_sort_plain(name, n)
        calls.append("%s(%s)" % (name, ", ".join("1" for _ in sym)))
    full = src + "\n".join(calls) + "\n"
    prog = bytecode.compile_source(full)
    samples = []
    n_obl = n_hold = queries = 0
    solver_s = 0.0
    rdir = os.path.join(VERIF, "replays", "C25")
    for kind, name, n, sym, background, desc in cs:
        entry = {"case": name, "elements": n, "symbolic_keys": len(sym)}
        try:
            m, done, inp = api.call(prog, name, lambda i: [i.make("int") for _ in sym], max_steps=400000, max_paths=20000)
        except InternalFault as e:
            key = "%s:internal_fault" % name
            outcome.violation(key, "internal fault while sorting: %s" % e, write(rdir, key, full, str(e)))
            continue
        except Unsupported as e:
            outcome.inconc("%s: outside the S model: %s" % (name, e))
            continue
        queries += m.queries
        solver_s += m.solver_s
        if m.bound_hit:
            outcome.inconc("%s: path/step bound reached" % name)
        entry["paths"] = len(done)
        keys_in = {}
        si = 0
        for i in range(n):
            if i in sym:
                keys_in[i] = inp.leaves[sym.index(i)]
            else:
                keys_in[i] = I(background[i]) if background else None
        verdict = "holds"
        for st in done:
            if st.status == "dead":
                continue
            n_obl += 1
            cond = z3.And(*st.cond) if st.cond else z3.BoolVal(True)
            problem = None
            bad_formula = None
            if st.status != "done":
                problem = "sorting stops with %s" % st.status
                bad_formula = z3.BoolVal(True)
            else:
                rv = api.result_value(st)
                elems = st.heap[rv.v][1]
                if len(elems) != n:
                    problem, bad_formula = "length changed", z3.BoolVal(True)
                elif kind == "plain":
                    # values only: every output term must be one of the inputs, each used once; then sortedness
                    outs = [e.v for e in elems]
                    used = []
                    for o in outs:
                        hit = [j for j, leaf in enumerate(inp.leaves) if z3.eq(o, leaf) and j not in used]
                        if not hit:
                            problem, bad_formula = "output is not a rearrangement of the input values", z3.BoolVal(True)
                            break
                        used.append(hit[0])
                    if problem is None:
                        problem = "not in non-decreasing order"
                        bad_formula = z3.Or(*[outs[j] > outs[j + 1] for j in range(n - 1)]) if n > 1 else z3.BoolVal(False)
                else:
                    tags, keys = [], []
                    for e in elems:
                        f = st.heap[e.v][1]
                        keys.append(f[0].v)
                        tv = z3.simplify(f[1].v)
                        tags.append(tv.as_long())
                    if sorted(tags) != list(range(n)):
                        problem, bad_formula = "output is not a permutation of the input elements (tags %s)" % tags, z3.BoolVal(True)
                    else:
                        bad = []
                        for j in range(n - 1):
                            a, b = keys[j], keys[j + 1]
                            if desc:
                                bad.append(a < b)
                            else:
                                bad.append(a > b)
                            bad.append(z3.And(a == b, z3.BoolVal(tags[j] > tags[j + 1])))  # stability
                        # each element must still carry its own key
                        for j in range(n):
                            if keys_in[tags[j]] is not None:
                                bad.append(keys[j] != keys_in[tags[j]])
                        problem = "not sorted by key, or equal keys reordered (not stable), or an element changed"
                        bad_formula = z3.Or(*bad) if bad else z3.BoolVal(False)
            s = z3.Solver()
            s.set("timeout", 60000)
            s.add(cond, bad_formula)
            t1 = time.time()
            r = s.check()
            solver_s += time.time() - t1
            queries += 1
            if r == z3.unsat:
                n_hold += 1
                continue
            if r == z3.unknown:
                outcome.inconc("%s: solver unknown" % name)
                continue
            verdict = "violated"
            vals = [s.model().eval(v, model_completion=True).as_signed_long() for v in inp.leaves]
            key = "%s:%s" % (name, "error" if st.status != "done" else "wrong_order")
            entry["counterexample"] = vals
            if outcome.findings.lookup("C25", key) is not None:
                outcome.violation(key, problem, None)
            else:
                ok, path, note = replay(rdir, key, src, kind, name, n, sym, background, desc, vals)
                if ok:
                    outcome.violation(key, "%s: %s for symbolic keys %s [real VM: %s]" % (name, problem, vals, note), path)
                else:
                    outcome.inconc("%s: counterexample %s did not reproduce on the real VM (%s)" % (name, vals, note))
            break
        entry["verdict"] = verdict
        samples.append(entry)
    cov = {
        "evaluations": n_obl,
        "distinct_nontrivial": n_hold,
        "rule": "one evaluation = one bytecode path of one sorting case (every comparison outcome forks); on each path the output array is "
                "a concrete arrangement of the input elements (checked by identity tag) and z3 must refute `path condition and (adjacent keys "
                "out of order or equal keys swapped or key changed)`; non-trivial = verdict unsat",
        "samples": samples,
        "functions_encoded": ["prelude: array.sort, sort_by, sort_by_key, insertion_sort_by, merge_by (compiled bytecode, lambdas included)"],
        "bounds": "fully symbolic keys for n <= %d elements (all n! comparison outcomes); n = 33, 34%s with 1-3 symbolic keys placed in different "
                  "32-element runs over a concrete background with duplicate keys (exercises the run boundary, merge rounds and stability across "
                  "runs). Outside: fully symbolic arrays longer than 5; comparison functions that are not total orders." % (
                      5 if t == "thorough" else 4, ", 35, 65, 66" if t == "thorough" else ""),
        "queries": queries,
        "solver_s": round(solver_s, 2),
        "programs": 1,
    }
    return "model_checking", cov, ["the S instruction model agrees with the real VM (K arm harnesses; ./check C02 differential run)"]


def write(rdir, key, src, note):
    os.makedirs(rdir, exist_ok=True)
    path = os.path.join(rdir, key.replace(":", "_") + ".abra")
    open(path, "w").write("// C25 %s\n// %s\n%s" % (key, note, src))
    return path


def replay(rdir, key, src, kind, name, n, sym, background, desc, vals):
    lit = lambda v: "(-9223372036854775807 - 1)" if v == -(1 << 63) else ("(%d)" % v if v < 0 else str(v))  # noqa: E731
    text = src + "println(%s(%s))\n" % (name, ", ".join(lit(v) for v in vals))
    res = bytecode.run_source(text)
    # python reference: stable sort
    if kind == "plain":
        want = sorted(vals)
        exp = "[ " + ", ".join(str(x) for x in want) + " ]"
    else:
        items = []
        vi = iter(vals)
        for i in range(n):
            k = next(vi) if i in sym else (background[i] if background else 0)
            items.append((k, i))
        want = sorted(items, key=lambda p: -p[0] if desc else p[0])
        exp = "[ " + ", ".join("(%d, %d)" % p for p in want) + " ]" if want else "[]"
    path = write(rdir, key, text, "expected %s ; real VM %s" % (exp, res))
    if res.get("status") != "done":
        return True, path, "real VM stopped with %s" % res.get("status")
    got = res.get("output", "").strip()
    return got != exp, path, "printed %s, stable reference sort gives %s" % (got[:200], exp[:200])
