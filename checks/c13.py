"""C13 -- see matchlib.py / matchrun.py"""
import matchrun

LEVEL = "model_checking"
RULE = "one evaluation = one arm of one match template: the checker reports the arm redundant iff z3 refutes 'some value matches this arm and none of the earlier arms' (over all value shapes; literal patterns by VALUE, so 1.0 and 1.00 coincide); non-trivial = verdict holds"
ASSUME = ['pattern semantics of checks/matchlib.py::matches is the reference (language reference: patterns.md)', 'the S instruction model agrees with the real VM (K arm harnesses; ./check C02 differential run)']


def run(outcome, _harnesses):
    cov = matchrun.run_property("C13", outcome)
    cov["rule"] = RULE
    return LEVEL, cov, ASSUME
