"""C38: arena allocation is memory-safe for any size -- engine M (MIR -> SMT) + Miri replay."""
import os
import re
import shutil
import subprocess
import sys
import time

sys.path.insert(0, os.path.join(os.path.dirname(os.path.abspath(__file__)), "..", "mir"))
import z3  # noqa: E402
import arena_check as A  # noqa: E402
from kcheck import slug  # noqa: E402
from vcommon import VERIF, base_env, scratch_dir  # noqa: E402


def small_model(ex, cond, pc):
    """Re-solve a violated obligation for a small, directly constructible pre-state."""
    s = z3.Solver()
    s.set("timeout", 60000)
    s.add(*ex.pre, *pc, z3.Not(cond))
    s.add(z3.ULE(ex.len0, 64), z3.ULE(ex.size, 128), z3.ULE(ex.align, 16))
    if s.check() != z3.sat:
        return None
    m = s.model()
    g = lambda v: m.eval(v, model_completion=True).as_long()  # noqa: E731
    return {"offset": g(ex.offset0), "len": g(ex.len0), "size": g(ex.size), "align": g(ex.align)}


def miri_replay(model, udir, name):
    """with_capacity(len); `offset` one-byte allocations; then one allocation of a (size, align) type; touch everything."""
    test = """
#[cfg(test)]
mod abra_verif_replay {
    use super::*;
    #[derive(Clone, Copy)]
    #[repr(align(%(align)d))]
    struct Big([u8; %(size)d]);
    #[test]
    fn replay_%(name)s() {
        let arena = Arena::with_capacity(%(len)d);
        let mut small = Vec::new();
        for i in 0..%(offset)d {
            small.push(arena.alloc(i as u8));
        }
        let big = arena.alloc(Big([0xAB; %(size)d]));
        let p = &*big as *const Big as usize;
        assert_eq!(p %% %(align)d, 0, "misaligned allocation");
        for (i, s) in small.iter().enumerate() {
            assert_eq!(**s, i as u8, "earlier allocation was overwritten");
        }
        assert!(big.0.iter().all(|b| *b == 0xAB));
    }
}
""" % dict(model, name=name)
    src = os.path.join(udir, "src", "arena.rs")
    orig = open(src).read()
    open(src, "w").write(orig + test)
    env = base_env()
    env["MIRIFLAGS"] = "-Zmiri-disable-isolation"
    try:
        r = subprocess.run(["cargo", "+nightly", "miri", "test", "--offline", "--lib", "replay_" + name], cwd=udir, env=env,
                           capture_output=True, text=True, timeout=900)
        out = r.stdout + r.stderr
    except subprocess.TimeoutExpired:
        out = "timeout"
        r = None
    finally:
        open(src, "w").write(orig)
    ub = "Undefined Behavior" in out
    failed = ub or "test result: FAILED" in out or "panicked" in out
    return failed, ub, test, out[-1500:]


def run(outcome, _harnesses):
    t0 = time.time()
    try:
        mir, udir = A.dump_mir()
        ex, results, solver_s, wall = A.check(mir)
    except A.Unknown as e:
        outcome.inconc("engine M could not encode Arena::alloc from the current source: %s" % e)
        return "model_checking", {"evaluations": 1, "distinct_nontrivial": 0, "samples": [str(e)]}, []
    ncvc, bad = A.cross_check_cvc5(results)
    for ob, why in bad:
        outcome.inconc("solver disagreement on '%s': %s" % (ob, why))
    samples = []
    n_hold = 0
    seen_keys = set()
    rdir = os.path.join(VERIF, "replays", "C38")
    for i, (r, (name, cond, pc)) in enumerate(zip(results, ex.obligations)):
        entry = {"obligation": r["obligation"], "verdict": r["verdict"], "model": r["model"]}
        if r["verdict"] == "holds":
            n_hold += 1
        elif r["verdict"] == "unknown":
            outcome.inconc("solver returned unknown on '%s'" % name)
        else:
            key = "alloc:" + slug(name)
            if key in seen_keys:
                samples.append(entry)
                continue
            seen_keys.add(key)
            if outcome.findings.lookup("C38", key) is not None:
                outcome.violation(key, name, None)
                entry["known_finding"] = key
            else:
                sm = small_model(ex, cond, pc)
                if sm is None:
                    outcome.inconc("'%s' is violated only by pre-states too large to construct in a replay (model %s)" % (name, r["model"]))
                else:
                    failed, ub, test, tail = miri_replay(sm, udir, "o%d" % i)
                    entry["replay_model"] = sm
                    entry["replay"] = {"failed": failed, "undefined_behaviour_reported_by_miri": ub}
                    os.makedirs(rdir, exist_ok=True)
                    path = os.path.join(rdir, "alloc_%s.rs" % slug(name)[:40])
                    open(path, "w").write("// C38 counterexample for obligation: %s\n// pre-state/model: %s\n// replay: append to utils/src/arena.rs and run "
                                          "`cargo +nightly miri test --lib replay_`\n// miri tail:\n/*\n%s\n*/\n%s" % (name, sm, tail, test))
                    if failed:
                        outcome.violation(key, "%s; model %s; Miri: %s" % (name, sm, "UB" if ub else "assertion failed"), path)
                    else:
                        outcome.inconc("'%s' violated in the encoding (model %s) but the Miri replay passed; encoding suspected" % (name, sm))
        samples.append(entry)
    cov = {
        "evaluations": len(results),
        "distinct_nontrivial": n_hold,
        "rule": "one evaluation = one proof obligation generated while symbolically executing the MIR of Arena::alloc<T> "
                "(overflow asserts, pointer arithmetic in bounds, write in bounds / aligned / not overlapping, invariant re-established), "
                "decided by z3 over all (offset, buffer length, size_of T, align_of T) within the bounds and cross-checked with cvc5; "
                "non-trivial = verdict unsat (holds) with a satisfiable path condition",
        "samples": samples[:40],
        "functions_encoded": ["utils::arena::Arena::alloc<T> (MIR, %d basic blocks, %d statements executed)" % (len(ex.blocks), ex.stmts_seen)],
        "library_summaries": sorted(ex.summaries),
        "bounds": "one inductive step from any pre-state with offset <= len(current_buf) < 2^48; size_of::<T>() < 2^40, a multiple of "
                  "align_of::<T>() (a power of two <= 4096). Outside: sequences are covered only through the invariant; Ar<'_,T> lifetime "
                  "rules (borrow checker); drop of the arena.",
        "queries": len(results),
        "solver_s": round(solver_s, 3),
        "cvc5_cross_checked": ncvc,
    }
    assumptions = ["Rust's layout guarantees for T (size multiple of align, align a power of two)",
                   "summaries of the library calls listed under library_summaries (Box::new_uninit_slice returns a fresh buffer of the requested "
                   "length with align-1 guarantee only; mem::replace; Vec::push keeps the old buffer alive)",
                   "the nightly compiler's MIR for utils matches what the stable compiler builds (same source, same semantics)"]
    return "model_checking", cov, assumptions
