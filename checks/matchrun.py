"""Runner shared by C12, C13, C14 (see matchlib.py)."""
import os
import random
import sys
import time

sys.path.insert(0, os.path.join(os.path.dirname(os.path.abspath(__file__)), "..", "symex"))
import z3  # noqa: E402
import api  # noqa: E402
import bytecode  # noqa: E402
import matchlib as ML  # noqa: E402
from svm import I, InternalFault, State, Unsupported  # noqa: E402
from vcommon import VERIF, seed, tier  # noqa: E402


def literal(t, shape, sv, model):
    """Abra literal of the value described by SymValue sv under a z3 model"""
    k = shape[0]
    if k == "leaf":
        kind = shape[1]
        if kind == "void":
            return "nil"
        if kind == "string":
            ln = model.eval(sv.term.len_term(), model_completion=True).as_long()
            bs = [model.eval(b, model_completion=True).as_long() for b in sv.term.bytes[:ln]]
            s = "".join(chr(b) if 32 <= b < 127 and chr(b) not in '"\\' else "\\x%02x" % b for b in bs)
            return '"%s"' % s
        v = model.eval(sv.term, model_completion=True)
        if kind == "bool":
            return "true" if z3.is_true(v) else "false"
        if kind == "int":
            n = v.as_signed_long()
            return "(-9223372036854775807 - 1)" if n == -(1 << 63) else ("(%d)" % n if n < 0 else str(n))
        if kind == "float":
            import struct
            f = struct.unpack("<d", struct.pack("<Q", v.as_long()))[0]
            r = repr(f)
            if f != f or "inf" in r or "e" in r:
                return None
            return "(%s)" % r if r.startswith("-") else r
    if k == "tuple":
        if t[0] == "struct":
            parts = [literal(ft, s, c, model) for (_, ft), s, c in zip(ML.STRUCTS[t[1]], shape[1], sv.kids)]
            return None if any(p is None for p in parts) else "%s(%s)" % (t[1], ", ".join(parts))
        parts = [literal(ct, s, c, model) for ct, s, c in zip(t[1], shape[1], sv.kids)]
        return None if any(p is None for p in parts) else "(" + ", ".join(parts) + ")"
    vs = ML.variants(t)
    vn, fts = vs[shape[1]]
    parts = [literal(ft, s, c, model) for ft, s, c in zip(fts, shape[2], sv.kids)]
    if any(p is None for p in parts):
        return None
    prefix = "option." if t[0] == "option" else t[1] + "."
    return prefix + vn + ("(" + ", ".join(parts) + ")" if parts else "")


class Template:
    def __init__(self, idx, t, arms):
        self.idx, self.t, self.arms = idx, t, arms
        self.name = "vf_match_%d" % idx
        self.fn = ML.gen_function(self.name, t, arms)
        self.src = ML.DECLS + self.fn + "%s(%s)\n" % (self.name, ML.dummy_value(t))
        self.arm_lines = []
        lines = self.src.splitlines()
        start = [i for i, l in enumerate(lines) if l.startswith("  match v {")][0]
        for i in range(len(arms)):
            self.arm_lines.append(start + 2 + i)  # 1-based line numbers


def oracle(tpl, stats):
    """per shape: (shape, SymValue, [M_i], constraints)"""
    out = []
    for shape in ML.shapes(tpl.t):
        inp = api.Inputs(State(), "o%d" % tpl.idx)
        sv = ML.SymValue(shape, inp)
        ms = [ML.matches(p, sv, tpl.t) for p in tpl.arms]
        out.append((shape, sv, ms, list(inp.constraints)))
    return out


def sat(stats, *fs):
    s = z3.Solver()
    s.set("timeout", 60000)
    s.add(*fs)
    t1 = time.time()
    r = s.check()
    stats["solver_s"] += time.time() - t1
    stats["queries"] += 1
    return r, (s.model() if r == z3.sat else None)


def run_property(prop, outcome):
    rng = random.Random(1000 + seed())
    t = tier()
    per_type = 14 if t != "thorough" else 60
    stats = {"queries": 0, "solver_s": 0.0}
    templates = []
    idx = 0
    fixed_rng = random.Random(7)  # the core family does not depend on VERIF_SEED
    for ty in ML.TYPES:
        core = ML.arm_lists(ty, fixed_rng, per_type, exhaustive_limit=(400 if t == "thorough" else 80))
        extra = ML.arm_lists(ty, rng, 4)
        for arms in core + extra:
            templates.append(Template(idx, ty, arms))
            idx += 1
    samples = []
    n_obl = n_hold = 0
    rdir = os.path.join(VERIF, "replays", prop)
    accepted = []
    checker_cache = {}
    ctx_candidates = []
    for tpl in templates:
        ok, text = bytecode.check_source(tpl.src)
        chk = ML.parse_checker(text, tpl.src)
        if not ok and "checker crashed" in text:
            if prop == "C12":
                outcome.inconc("checker crashed on a template (C04 territory): %s" % text[:200])
            continue
        if chk["other"]:
            # template rejected for another reason (e.g. or-pattern binding mismatch): outside this property
            continue
        orc = oracle(tpl, stats)
        entry = {"type": ML.tname(tpl.t), "arms": [ML.pat_str(p) for p in tpl.arms], "checker": "accepted" if not chk["nonexhaustive"] else "non-exhaustive",
                 "checker_redundant_arms": [tpl.arm_lines.index(l) + 1 for l in chk["redundant_lines"] if l in tpl.arm_lines]}
        # reference exhaustiveness
        gap = None
        for shape, sv, ms, cons in orc:
            r, m = sat(stats, *cons, z3.Not(z3.Or(*ms)))
            if r == z3.sat:
                gap = (shape, sv, m)
                break
        if prop == "C12":
            n_obl += 1
            ctx_candidates.append((tpl, gap is not None))
            if not chk["nonexhaustive"] and gap is not None:
                val = literal(tpl.t, gap[0], gap[1], gap[2])
                key = "accepted_gap:%s:%s" % (ML.tname(tpl.t).replace(" ", ""), "|".join(entry["arms"]).replace(" ", ""))
                entry["verdict"] = "violated: accepted although value %s matches no arm" % val
                note = ""
                if val is not None:
                    real = bytecode.run_source(ML.DECLS + tpl.fn + "println(%s(%s))\n" % (tpl.name, val))
                    note = "real VM on %s: %s %r" % (val, real.get("status"), real.get("output"))
                path = write(rdir, key, tpl.src, "accepted by the checker, but the value %s matches no arm. %s" % (val, note))
                report(outcome, prop, key, entry["verdict"] + " " + note, path)
            elif chk["nonexhaustive"] and gap is None:
                key = "false_gap:%s:%s" % (ML.tname(tpl.t).replace(" ", ""), "|".join(entry["arms"]).replace(" ", ""))
                entry["verdict"] = "violated: reported non-exhaustive but every value matches an arm"
                report(outcome, prop, key, entry["verdict"], write(rdir, key, tpl.src, entry["verdict"] + "\n" + text))
            elif chk["nonexhaustive"]:
                bad_w = None
                for w in chk["missing"]:
                    try:
                        wp = ML.parse_witness(w, tpl.t)
                    except (ValueError, IndexError, TypeError) as e:
                        outcome.inconc("cannot parse missing-case text `%s`: %s" % (w, e))
                        continue
                    covers = False
                    try:
                        for shape, sv, ms, cons in orc:
                            r, _ = sat(stats, *cons, ML.matches(wp, sv, tpl.t), z3.Not(z3.Or(*ms)))
                            if r == z3.sat:
                                covers = True
                                break
                    except (KeyError, IndexError, TypeError, AttributeError, ValueError, z3.Z3Exception):
                        covers = False  # the listed case is not even a pattern of the scrutinee's type
                    if not covers:
                        bad_w = w
                        break
                if bad_w is not None:
                    key = "bad_witness:%s:%s" % (ML.tname(tpl.t).replace(" ", ""), "|".join(entry["arms"]).replace(" ", ""))
                    entry["verdict"] = "violated: listed missing case `%s` covers no unmatched value" % bad_w
                    report(outcome, prop, key, entry["verdict"], write(rdir, key, tpl.src, entry["verdict"] + "\n" + text))
                else:
                    entry["verdict"] = "holds (gap is real; %d listed cases each cover an unmatched value)" % len(chk["missing"])
                    n_hold += 1
            else:
                entry["verdict"] = "holds (accepted and exhaustive for every value)"
                n_hold += 1
            samples.append(entry)
        if prop == "C13":
            for i in range(len(tpl.arms)):
                n_obl += 1
                reach = None
                for shape, sv, ms, cons in orc:
                    r, m = sat(stats, *cons, ms[i], z3.Not(z3.Or(*ms[:i])) if i else z3.BoolVal(True))
                    if r == z3.sat:
                        reach = (shape, sv, m)
                        break
                said = (i + 1) in entry["checker_redundant_arms"]
                if said and reach is not None:
                    val = literal(tpl.t, reach[0], reach[1], reach[2])
                    key = "false_redundant:%s:%s:arm%d" % (ML.tname(tpl.t).replace(" ", ""), "|".join(entry["arms"]).replace(" ", ""), i + 1)
                    entry["verdict"] = "violated: arm %d reported redundant but value %s reaches it" % (i + 1, val)
                    report(outcome, prop, key, entry["verdict"], write(rdir, key, tpl.src, entry["verdict"] + "\n" + text))
                    break
                if not said and reach is None:
                    key = "missed_redundant:%s:%s:arm%d" % (ML.tname(tpl.t).replace(" ", ""), "|".join(entry["arms"]).replace(" ", ""), i + 1)
                    entry["verdict"] = "violated: arm %d can never be reached (every value it matches is matched earlier) but is not reported" % (i + 1)
                    report(outcome, prop, key, entry["verdict"], write(rdir, key, tpl.src, entry["verdict"] + "\nchecker said:\n" + text))
                    break
                n_hold += 1
            else:
                entry["verdict"] = "holds (redundant arms reported: %s)" % entry["checker_redundant_arms"]
            samples.append(entry)
        if prop == "C14" and chk["ok"] and gap is None:
            accepted.append((tpl, orc, entry))
    functions = ["statics::pat_exhaustiveness (run for real through the driver)"]
    if prop == "C12":
        a, b, ctx_samples = context_family(outcome, ctx_candidates, rdir, 10 if t != "thorough" else 40)
        n_obl += a
        n_hold += b
        samples = samples[:45] + ctx_samples[:20]
    if prop == "C14":
        functions = ["translate_bytecode: match / pattern code generation (compiled for real)", "vm instruction model (engine S)"]
        for tpl, orc, entry in accepted:
            try:
                prog = bytecode.compile_source(tpl.src)
            except bytecode.CompileError as e:
                outcome.inconc("template accepted by the checker does not compile (C03 territory): %s" % str(e)[-200:])
                continue
            verdict = "holds"
            paths = 0
            for shape in ML.shapes(tpl.t):
                holder = {}

                def build(inp, shape=shape):
                    sv = ML.SymValue(shape, inp)
                    holder["sv"] = sv
                    return [] if tpl.t == "void" else [sv.val]
                try:
                    m, done, inp = api.call(prog, tpl.name, build, max_steps=40000, max_paths=2000)
                except InternalFault as e:
                    key = "fault:%s:%s" % (ML.tname(tpl.t).replace(" ", ""), "|".join(entry["arms"]).replace(" ", ""))
                    verdict = "violated: internal fault %s" % e
                    report(outcome, prop, key, verdict, write(rdir, key, tpl.src, verdict))
                    break
                except Unsupported as e:
                    outcome.inconc("match template outside the S model: %s" % e)
                    continue
                stats["queries"] += m.queries
                stats["solver_s"] += m.solver_s
                sv = holder["sv"]
                ms = [ML.matches(p, sv, tpl.t) for p in tpl.arms]
                bad = None
                for st in done:
                    if st.status == "dead":
                        continue
                    paths += 1
                    n_obl += 1
                    cond = z3.And(*st.cond) if st.cond else z3.BoolVal(True)
                    if st.status != "done":
                        bad = ("match stops with %s" % st.status, cond)
                        break
                    rv = api.result_value(st)
                    elems = [e.v for e in st.heap[rv.v][1]]
                    ok_all = True
                    for i, p in enumerate(tpl.arms):
                        first = z3.And(ms[i], z3.Not(z3.Or(*ms[:i]))) if i else ms[i]
                        bs = []
                        ML.bindings(p, sv, tpl.t, bs)
                        want = [I(i + 1)] + [z3.If(b, I(1), I(0)) if ty == "bool" else b for _, ty, b in bs]
                        if len(want) != len(elems):
                            mismatch = z3.BoolVal(True)
                        else:
                            mismatch = z3.Or(*[a != b for a, b in zip(elems, want)])
                        r, mdl = sat(stats, cond, first, mismatch)
                        if r == z3.sat:
                            bad = ("arm %d is the first matching arm but the program returned something else" % (i + 1), z3.And(cond, first, mismatch))
                            ok_all = False
                            break
                    if not ok_all:
                        break
                    n_hold += 1
                if bad:
                    r, mdl = sat(stats, bad[1])
                    val = literal(tpl.t, shape, sv, mdl) if mdl is not None else None
                    key = "wrong_arm:%s:%s" % (ML.tname(tpl.t).replace(" ", ""), "|".join(entry["arms"]).replace(" ", ""))
                    note = ""
                    if val is not None:
                        real = bytecode.run_source(ML.DECLS + tpl.fn + "println(%s(%s))\n" % (tpl.name, val))
                        note = "real VM on %s: %s %r" % (val, real.get("status"), real.get("output"))
                    verdict = "violated: %s (value %s) %s" % (bad[0], val, note)
                    report(outcome, prop, key, verdict, write(rdir, key, tpl.src, verdict))
                    break
            entry["paths"] = paths
            entry["verdict"] = verdict
            samples.append(entry)
    cov = {
        "evaluations": n_obl,
        "distinct_nontrivial": n_hold,
        "samples": samples[:60],
        "programs": len(templates),
        "functions_encoded": functions,
        "queries": stats["queries"],
        "solver_s": round(stats["solver_s"], 2),
        "bounds": "scrutinee types: %s; patterns nested to depth 2 with literals {true,false}, {0,7}, {1.0,1.00,2.5}, {\"a\",\"\"}, nil, variables, "
                  "wildcards, one level of or-patterns; arm lists of 1..3 arms: %d templates (exhaustive over short lists for small pattern "
                  "pools, seeded samples otherwise). The value space of every type (all ints, all float bit patterns, strings <= 1 byte) is "
                  "the solver's. C12 additionally wraps matches in %d syntactic positions (arm and scrutinee of an outer match, task block, lambda, "
                  "branches, loops, let, return, call argument, tuple / array component, index base, operand, member function, top level) and demands "
                  "the same verdict. Outside: longer arm lists, deeper nesting, generic types." % (", ".join(ML.tname(x) for x in ML.TYPES), len(templates), len(CONTEXTS)),
    }
    return cov


# Every position a match expression can occur in: the checker's verdict must not depend on it.
CONTEXTS = [
    ("function_body", "fn vf_ctx(v: %(T)s, w: bool) -> array<int> {\n  %(M)s\n}\n"),
    ("arm_of_outer_match", "fn vf_ctx(v: %(T)s, w: bool) -> array<int> {\n  match w {\n    true -> %(M)s\n    false -> [0]\n  }\n}\n"),
    ("block_in_arm_of_outer_match", "fn vf_ctx(v: %(T)s, w: bool) -> array<int> {\n  match w {\n    true -> {\n      let r = %(M)s\n      r\n    }\n    false -> [0]\n  }\n}\n"),
    ("scrutinee_of_outer_match", "fn vf_ctx(v: %(T)s, w: bool) -> array<int> {\n  match %(M)s {\n    _ -> [0]\n  }\n}\n"),
    ("task_block", "fn vf_ctx(v: %(T)s, w: bool) -> array<int> {\n  task {\n    let r = %(M)s\n  }\n  [0]\n}\n"),
    ("lambda_body", "fn vf_ctx(v: %(T)s, w: bool) -> array<int> {\n  let g = (u: bool) -> %(M)s\n  g(w)\n}\n"),
    ("if_branch", "fn vf_ctx(v: %(T)s, w: bool) -> array<int> {\n  if w {\n    %(M)s\n  } else {\n    [0]\n  }\n}\n"),
    ("else_branch", "fn vf_ctx(v: %(T)s, w: bool) -> array<int> {\n  if w {\n    [0]\n  } else {\n    %(M)s\n  }\n}\n"),
    ("for_body", "fn vf_ctx(v: %(T)s, w: bool) -> array<int> {\n  var r = [0]\n  for i in 1 {\n    r = %(M)s\n  }\n  r\n}\n"),
    ("while_body", "fn vf_ctx(v: %(T)s, w: bool) -> array<int> {\n  var r = [0]\n  var go = w\n  while go {\n    r = %(M)s\n    go = false\n  }\n  r\n}\n"),
    ("let_rhs", "fn vf_ctx(v: %(T)s, w: bool) -> array<int> {\n  let r = %(M)s\n  r\n}\n"),
    ("return_value", "fn vf_ctx(v: %(T)s, w: bool) -> array<int> {\n  return %(M)s\n}\n"),
    ("call_argument", "fn vf_id(x: array<int>) -> array<int> { x }\nfn vf_ctx(v: %(T)s, w: bool) -> array<int> {\n  vf_id(%(M)s)\n}\n"),
    ("tuple_component", "fn vf_ctx(v: %(T)s, w: bool) -> array<int> {\n  let p = (1, %(M)s)\n  [0]\n}\n"),
    ("array_element", "fn vf_ctx(v: %(T)s, w: bool) -> array<int> {\n  let p = [%(M)s]\n  [0]\n}\n"),
    ("index_base", "fn vf_ctx(v: %(T)s, w: bool) -> array<int> {\n  [(%(M)s)[0]]\n}\n"),
    ("operand", "fn vf_ctx(v: %(T)s, w: bool) -> array<int> {\n  [(%(M)s)[0] + 1]\n}\n"),
    ("member_function", "type VfHolder = {\n  h: int\n}\nextend VfHolder {\n  fn m(self, v: %(T)s, w: bool) -> array<int> {\n    %(M)s\n  }\n}\n"),
    ("top_level_statement", "let v: %(T)s = %(D)s\nlet vf_r = %(M)s\n"),
]


def context_family(outcome, candidates, rdir, per_kind):
    """wrap non-exhaustive and exhaustive matches in every syntactic position; the checker must report exactly the non-exhaustive ones"""
    gaps = [c for c in candidates if c[1]][:per_kind]
    full = [c for c in candidates if not c[1]][:max(2, per_kind // 3)]
    n = hold = 0
    samples = []
    for tpl, has_gap in gaps + full:
        body = tpl.fn.split("\n", 1)[1].rsplit("}", 1)[0]  # "  match v { ... }\n"
        mexpr = body.strip()
        for cname, wrapper in CONTEXTS:
            src = ML.DECLS + wrapper % {"T": ML.tname(tpl.t), "M": mexpr.replace("\n", "\n  "), "D": ML.dummy_value(tpl.t)}
            ok, text = bytecode.check_source(src)
            chk = ML.parse_checker(text, src)
            if chk["other"] or "checker crashed" in text:
                continue  # the wrapper itself is rejected for another reason (e.g. void result in this position): not a verdict
            n += 1
            entry = {"context": cname, "type": ML.tname(tpl.t), "arms": [ML.pat_str(p) for p in tpl.arms], "exhaustive": not has_gap,
                     "checker": "non-exhaustive" if chk["nonexhaustive"] else "accepted"}
            if has_gap and not chk["nonexhaustive"]:
                key = "context:%s:accepted_gap" % cname
                entry["verdict"] = "violated: a non-exhaustive match in position `%s` is accepted" % cname
                report(outcome, "C12", key, entry["verdict"] + " (arms %s over %s)" % (entry["arms"], entry["type"]),
                       write(rdir, key, src, entry["verdict"]))
            elif not has_gap and chk["nonexhaustive"]:
                key = "context:%s:false_gap" % cname
                entry["verdict"] = "violated: an exhaustive match in position `%s` is reported non-exhaustive" % cname
                report(outcome, "C12", key, entry["verdict"], write(rdir, key, src, entry["verdict"] + "\n" + text))
            else:
                entry["verdict"] = "holds"
                hold += 1
            samples.append(entry)
    return n, hold, samples


def report(outcome, prop, key, desc, path):
    key = key[:160]
    if outcome.findings.lookup(prop, key) is not None:
        outcome.violation(key, desc, None)
    else:
        outcome.violation(key, desc, path)


def write(rdir, key, src, note):
    os.makedirs(rdir, exist_ok=True)
    import hashlib
    path = os.path.join(rdir, hashlib.md5(key.encode()).hexdigest()[:12] + ".abra")
    open(path, "w").write("// %s\n// %s\n%s" % (key, note.replace("\n", "\n// "), src))
    return path
