"""C19 -- engine S (compiler output) vs reference semantics R on the dedicated template family (see symex/gen.py)."""
import os
import sys

sys.path.insert(0, os.path.join(os.path.dirname(os.path.abspath(__file__)), "..", "symex"))
import gen  # noqa: E402
import tvrun  # noqa: E402
from vcommon import tier  # noqa: E402


TEMPLATES = gen.lambda_templates
RULE = 'one evaluation = one lambda template: bytecode paths (S) x reference paths (R, closures snapshot the values of all visible variables at creation); z3 refutes a different result for every joint path; non-trivial = holds'
BOUNDS = '%d templates: capture then reassign, reassign then capture, nested lambda whose inner body uses a variable the outer one does not, captured parameter and local with per-invocation locals, lambda as argument, captured array (shared) vs captured int (copied), lambdas created in a loop; all captured/argument values symbolic 64-bit ints; nesting <= 2. Outside: lambdas capturing lambdas of generic type, recursion through lambdas.'


def run(outcome, _harnesses):
    templates = TEMPLATES()
    cov = tvrun.run_templates("C19", outcome, templates, modes=("opt", "noopt") if tier() == "thorough" else ("opt",))
    cov["rule"] = RULE
    cov["functions_encoded"] = ["parse -> check -> translate_bytecode (-> optimize) run for real on every template", "engine S instruction model", "reference semantics R"]
    cov["bounds"] = BOUNDS % len(templates)
    return "translation_validation", cov, ["R (refsem.py) is the reference semantics", "the S instruction model, validated against the real VM on concrete inputs on every run"]
