"""Shared runner for the R-based checks (C02, C05 S-part, C19, C23): for each template, compile with the real compiler,
execute the bytecode symbolically (S), run the reference (R), compare all joint paths with z3, replay counterexamples
and validate S itself against the real VM on concrete inputs taken from the path conditions."""
import hashlib
import os
import sys
import time

sys.path.insert(0, os.path.join(os.path.dirname(os.path.abspath(__file__)), "..", "symex"))
import z3  # noqa: E402
import api  # noqa: E402
import bytecode  # noqa: E402
import tv  # noqa: E402
from vcommon import VERIF  # noqa: E402


def validate_s_against_vm(tpl, res_prog, stats, max_paths=2):
    """Translator validation of engine S: concrete inputs from S path conditions, run on the REAL VM, compare."""
    holder = {}

    def build(inp):
        d = tv.Dual(inp)
        parts = [d.make(s) for s in tpl["specs"]]
        return [p[0] for p in parts]
    try:
        m, done, inp = api.call(res_prog, tpl["entry"], build, max_steps=30000, max_paths=400)
    except Exception:
        return 0, []
    mismatches = []
    n = 0
    ret_t = [f for f in tpl["funcs"] if f[0] == tpl["entry"]][0][2]
    for st in [s for s in done if s.status not in ("dead", "bound")][:max_paths]:
        s = z3.Solver()
        s.set("timeout", 10000)
        s.add(*st.cond)
        if s.check() != z3.sat:
            continue
        mdl = s.model()
        vals = []
        for v in inp.leaves:
            x = mdl.eval(v, model_completion=True)
            vals.append(z3.is_true(x) if z3.is_bool(v) else x.as_long())
        it = iter(vals)
        args = ", ".join(tv.literal(sp, it) for sp in tpl["specs"])
        # rebuild source with a printing main
        src = tv.source_of(tpl["funcs"], tpl["entry"], tpl["specs"], tpl["structs"])
        src = src[: src.rindex(tpl["entry"] + "(")]
        printable = ret_t != "void" and not (isinstance(ret_t, tuple) and ret_t[0] == "fn")
        src += ("let vf_result = %s(%s)\nprintln(\"<result>\" .. vf_result)\n" % (tpl["entry"], args)) if printable else "%s(%s)\n" % (tpl["entry"], args)
        real = bytecode.run_source(src)
        n += 1
        # what S predicts
        want_status = st.status
        if real.get("status") != want_status:
            mismatches.append("inputs %s: S predicts %s, real VM %s" % (vals, want_status, real.get("status")))
            continue
        if want_status == "done" and printable:
            rv = api.result_value(st)
            text = render_s(rv, st, mdl)
            outs = "".join(render_out(o, mdl) for o in st.out)
            want = outs + "<result>" + (text or "") + "\n"
            if text is not None and real.get("output") != want:
                mismatches.append("inputs %s: S predicts output %r, real VM printed %r" % (vals, want, real.get("output")))
    return n, mismatches


def render_s(v, st, mdl):
    if v is None:
        return None
    if v.tag == "Int":
        return str(mdl.eval(v.v, model_completion=True).as_signed_long())
    if v.tag == "Bool":
        return "true" if z3.is_true(mdl.eval(v.v, model_completion=True)) else "false"
    if v.tag == "Array":
        parts = [render_s(e, st, mdl) for e in st.heap[v.v][1]]
        return None if any(p is None for p in parts) else "[ " + ", ".join(parts) + " ]"
    if v.tag == "Struct":
        parts = [render_s(e, st, mdl) for e in st.heap[v.v][1]]
        return None if any(p is None for p in parts) else "(" + ", ".join(parts) + ")"
    return None  # variants / closures: type information needed; skipped


def render_out(o, mdl):
    from svm import to_tokens
    out = ""
    for t in to_tokens(o):
        if t[0] == "lit":
            out += t[1].decode("utf-8", "replace")
        elif t[0] == "itoa":
            out += str(mdl.eval(t[1], model_completion=True).as_signed_long())
        else:
            out += "?"
    return out


def run_templates(prop, outcome, templates, modes=("opt",), validate_vm=True):
    """modes: 'opt' (optimizer on) and/or 'noopt' (ABRA_VERIF_NO_OPT=1).  Returns coverage dict."""
    stats = {"queries": 0, "solver_s": 0.0}
    samples = []
    n_eval = n_hold = pairs = validated = skipped = 0
    rdir = os.path.join(VERIF, "replays", prop)
    sample_sources = []
    for tpl in templates:
        for mode in modes:
            n_eval += 1
            t0 = time.time()
            try:
                res = tv.validate(tpl["funcs"], tpl["entry"], tpl["specs"], structs=tpl["structs"], no_opt=(mode == "noopt"))
            except Exception as e:  # a bug in the machinery must not masquerade as a verdict
                outcome.inconc("template %s (%s): machinery error %s: %s" % (tpl["name"], mode, type(e).__name__, str(e)[:200]))
                continue
            stats["queries"] += res.queries
            stats["solver_s"] += res.solver_s
            pairs += res.pairs
            entry = {"template": tpl["name"], "mode": mode, "verdict": res.status, "s_paths": res.s_paths, "r_paths": res.r_paths,
                     "joint_path_pairs": res.pairs, "wall_s": round(time.time() - t0, 2)}
            if len(sample_sources) < 3 and mode == modes[0]:
                sample_sources.append({"template": tpl["name"], "source": res.source})
            if res.status == "holds":
                n_hold += 1
                if validate_vm and mode == "opt":
                    try:
                        prog = bytecode.compile_source(res.source)
                        n, mism = validate_s_against_vm(tpl, prog, stats)
                        validated += n
                        for mm in mism:
                            outcome.inconc("engine S disagrees with the real VM on template %s: %s" % (tpl["name"], mm))
                    except Exception as e:
                        outcome.inconc("S/VM validation failed on %s: %s" % (tpl["name"], e))
            elif res.status == "compile_error":
                # the template is outside what the compiler accepts (or crashes it: C03 territory); not a verdict for this property
                skipped += 1
                entry["detail"] = res.detail[-300:]
                if not getattr(res, "crash", False):
                    # every template of the family is a valid program: a rejection means the template (or the checker) changed
                    outcome.inconc("template %s (%s) is rejected by the compiler: %s" % (tpl["name"], mode, res.detail[-200:].replace("\n", " ")))
                if getattr(res, "crash", False):
                    # the checker accepted the template and the translator panicked: no compiled program exists for a program of the family
                    key = "%s:compiler_crash" % tpl["name"]
                    path = write(rdir, key, res.source, "the compiler panics on this accepted program: %s" % res.detail[-300:])
                    if outcome.findings.lookup(prop, key) is not None:
                        outcome.violation(key, "compiler crash", None)
                    else:
                        outcome.violation(key, "the compiler panics on an accepted template (%s)" % res.detail[-160:].replace("\n", " "), path)
            elif res.status in ("skipped", "inconclusive"):
                skipped += 1
                entry["detail"] = res.detail
                if res.status == "inconclusive":
                    outcome.inconc("template %s (%s): %s" % (tpl["name"], mode, res.detail))
            else:
                key = "%s:%s" % (tpl["name"], mode)
                entry["detail"] = res.detail
                if outcome.findings.lookup(prop, key) is not None:
                    outcome.violation(key, res.detail, None)
                elif getattr(res, "fault", False):
                    # an internal fault in the symbolic run: replay the template's own main on the real VM with a few inputs
                    real = bytecode.run_source(res.source, no_opt=(mode == "noopt"))
                    path = write(rdir, key, res.source, "%s ; real VM on the dummy call: %s" % (res.detail, real))
                    # find concrete inputs that drive the real VM into the fault: try the S path condition at the fault if available
                    outcome.violation(key, res.detail + " [template source is the replay; real VM on default inputs: %s]" % real.get("status"), path)
                else:
                    reproduced, src, real, want = tv.replay(res, tpl["funcs"], tpl["entry"], tpl["specs"], tpl["structs"])
                    entry["counterexample"] = res.model_vals
                    path = write(rdir, key, src, "%s ; inputs %s ; reference expects %r ; real VM: %s" % (res.detail, res.model_vals, want, real))
                    if reproduced:
                        outcome.violation(key, "%s; inputs %s; reference expects %r, real VM gives %s %r" % (
                            res.detail, res.model_vals, want, real.get("status"), real.get("output")), path)
                    else:
                        outcome.inconc("template %s (%s): S/R disagreement (%s) did not reproduce on the real VM (inputs %s): the S model or R is "
                                       "suspected" % (tpl["name"], mode, res.detail, res.model_vals))
            samples.append(entry)
    cov = {
        "programs": len(templates),
        "disagreements_checked": pairs,
        "evaluations": n_eval,
        "distinct_nontrivial": n_hold,
        "traces_validated_against_impl": validated,
        "templates_skipped": skipped,
        "samples": samples[:70] + sample_sources,
        "queries": stats["queries"],
        "solver_s": round(stats["solver_s"], 2),
    }
    return cov


def write(rdir, key, src, note):
    os.makedirs(rdir, exist_ok=True)
    path = os.path.join(rdir, key.replace(":", "_").replace("/", "_").replace("%", "mod").replace("*", "mul").replace("^", "pow")
                        .replace("<", "lt").replace(">", "gt").replace("=", "eq").replace("!", "not").replace("+", "plus") + ".abra")
    open(path, "w").write("// %s\n// %s\n%s" % (key, note.replace("\n", " "), src))
    return path
