"""C05: optimisation and literal operands never change behaviour -- engine S on the real compiler's output, with and
without the peephole optimizer (hook ABRA_VERIF_NO_OPT), against the reference semantics R; plus literal-vs-variable
float forms compared S-vs-S.  (The K-level translation validation of optimize() did not finish under CBMC: measured
900 s timeout even for a three-line window -- Vec<Line> cloning with String payloads -- and is not part of the claim.)"""
import os
import sys
import time

sys.path.insert(0, os.path.join(os.path.dirname(os.path.abspath(__file__)), "..", "symex"))
import z3  # noqa: E402
import api  # noqa: E402
import bytecode  # noqa: E402
import gen  # noqa: E402
import tvrun  # noqa: E402
from svm import I, InternalFault, Unsupported, float_bits  # noqa: E402
from vcommon import VERIF, tier  # noqa: E402
import re  # noqa: E402
from kcheck import k_check  # noqa: E402

FLOAT_LITS = ["0.0", "1.5", "2.0", "0.5", "3.0", "100.0"]
FLOAT_OPS = [("+", "add"), ("-", "sub"), ("*", "mul"), ("/", "div"), ("<", "lt"), ("<=", "le"), (">", "gt"), (">=", "ge"), ("==", "eq")]


def float_chain_family(outcome, stats):
    """chains of literal operands: `x op a op b` must equal (x op a) op b evaluated step by step through the variable form (float
    arithmetic is not associative, so re-associating or pre-folding the literals changes the value).  S vs S over all bit patterns."""
    ops = {"add": "+", "sub": "-", "mul": "*"}
    pairs = [("1.0", "1.0"), ("0.2", "0.3"), ("0.1", "7.0")]
    src = ""
    for on, op in ops.items():
        src += "fn vf_var_%s(x: float, y: float) -> float { x %s y }\n" % (on, op)
    cases = []
    for on1, op1 in ops.items():
        for on2, op2 in ops.items():
            if (op1 == "*") != (op2 == "*"):
                continue  # mixed precedence: `x + a * b` is not a left-to-right chain
            for k, (a, b) in enumerate(pairs):
                name = "vf_chain_%s_%s_%d" % (on1, on2, k)
                src += "fn %s(x: float) -> float { x %s %s %s %s }\n" % (name, op1, a, op2, b)
                cases.append((name, on1, on2, a, b))
    src += "".join("vf_var_%s(1.0, 2.0)\n" % on for on in ops) + "".join("%s(1.0)\n" % c[0] for c in cases)
    n = hold = 0
    samples = []
    for mode, no_opt in (("opt", False), ("noopt", True)):
        try:
            prog = bytecode.compile_source(src, no_opt=no_opt)
        except bytecode.CompileError as e:
            outcome.inconc("float chain family does not compile (%s): %s" % (mode, str(e)[-200:]))
            continue
        for name, on1, on2, a, b in cases:
            n += 1
            try:
                m1, chain_paths, inp1 = api.call(prog, name, lambda i: [i.make("float")])
                x = inp1.leaves[0]

                def second(i, a=a, b=b):
                    return [i.make("float"), i.make("float")]
                m2, p_first, inp2 = api.call(prog, "vf_var_%s" % on1, second)
                m3, p_second, inp3 = api.call(prog, "vf_var_%s" % on2, second)
            except (Unsupported, InternalFault) as e:
                outcome.inconc("float chain family %s: %s" % (name, e))
                continue
            stats["queries"] += m1.queries + m2.queries + m3.queries
            ok_paths = lambda ps: [st for st in ps if st.status == "done"]  # noqa: E731
            c, f1, f2 = ok_paths(chain_paths), ok_paths(p_first), ok_paths(p_second)
            if len(c) != 1 or len(f1) != 1 or len(f2) != 1 or len(chain_paths) != 1:
                outcome.inconc("float chain family %s: more than one path (%d/%d/%d)" % (name, len(chain_paths), len(p_first), len(p_second)))
                continue
            as_bv = lambda t: z3.fpToIEEEBV(t) if z3.is_fp(t) else t  # noqa: E731
            to_fp = lambda t: t if z3.is_fp(t) else z3.fpBVToFP(t, z3.Float64())  # noqa: E731
            got = api.result_value(c[0]).v
            r1 = api.result_value(f1[0]).v
            r2 = api.result_value(f2[0]).v
            lit = lambda v: z3.BitVecVal(float_bits(float(v)), 64)  # noqa: E731
            # reference: step = variable form applied to (x, a), then to (that, b)
            step1 = z3.substitute(r1, (inp2.leaves[0], x), (inp2.leaves[1], lit(a)))
            step2 = z3.substitute(r2, (inp3.leaves[0], as_bv(step1)), (inp3.leaves[1], lit(b)))
            s = z3.Solver()
            s.set("timeout", 120000)
            s.add(z3.Not(z3.fpIsNaN(to_fp(x))), z3.Not(z3.fpIsNaN(to_fp(step1))), z3.Not(z3.fpIsNaN(to_fp(step2))), z3.Not(z3.fpIsNaN(to_fp(got))))
            s.add(as_bv(got) != as_bv(step2))
            t1 = time.time()
            r = s.check()
            stats["solver_s"] += time.time() - t1
            stats["queries"] += 1
            if r == z3.unsat:
                hold += 1
                continue
            if r == z3.unknown:
                outcome.inconc("float chain family %s: solver unknown" % name)
                continue
            xv = s.model().eval(x, model_completion=True)
            key = "float_chain_%s_%s_%s_%s:%s" % (on1, on2, a, b, mode)
            samples.append({"template": name, "mode": mode, "x": str(xv)})
            if outcome.findings.lookup("C05", key) is not None:
                outcome.violation(key, "chained literal operands evaluated differently", None)
                continue
            # replay on the real VM: the chain against the same computation through variables
            xbits = s.model().eval(as_bv(x), model_completion=True).as_long()
            import struct
            xf = struct.unpack("<d", struct.pack("<Q", xbits))[0]
            import decimal
            xlit = format(decimal.Decimal(xf), "f")  # exact decimal expansion (Abra has no exponent notation)
            if "." not in xlit:
                xlit += ".0"
            if xlit.startswith("-"):
                xlit = "(0.0 - %s)" % xlit[1:] if xf != 0 else "(0.0 * -1.0)"
            text = ("fn chain(x: float) -> float { x %s %s %s %s }\nfn step(x: float, a: float, b: float) -> float {\n  let t = x %s a\n  t %s b\n}\n"
                    "let x = %s\nprintln(chain(x) == step(x, %s, %s))\n" % (ops[on1], a, ops[on2], b, ops[on1], ops[on2], xlit, a, b))
            real = bytecode.run_source(text, no_opt=no_opt)
            rdir = os.path.join(VERIF, "replays", "C05")
            os.makedirs(rdir, exist_ok=True)
            path = os.path.join(rdir, key.replace(":", "_").replace(".", "_") + ".abra")
            open(path, "w").write("// C05 %s: must print true\n// real VM: %s\n%s" % (key, real, text))
            if real.get("status") == "done" and real.get("output", "").strip() == "false":
                outcome.violation(key, "x %s %s %s %s differs from the step-by-step evaluation for x = %r [real VM printed false]" % (ops[on1], a, ops[on2], b, xf), path)
            else:
                outcome.inconc("float chain %s: model disagreement for x = %r did not reproduce on the real VM (%s)" % (name, xf, real))
    return n, hold, samples


def float_family(outcome, stats):
    """x op LIT (literal operand, immediate instruction forms) must behave exactly like x op y with y == LIT"""
    src = ""
    calls = []
    cases = []
    for op, on in FLOAT_OPS:
        ret = "float" if op in "+-*/" else "bool"
        src += "fn vf_var_%s(x: float, y: float) -> %s { x %s y }\n" % (on, ret, op)
        calls.append("vf_var_%s(1.0, 2.0)" % on)
        for li, lit in enumerate(FLOAT_LITS):
            name = "vf_lit_%s_%d" % (on, li)
            src += "fn %s(x: float) -> %s { x %s %s }\n" % (name, ret, op, lit)
            calls.append("%s(1.0)" % name)
            cases.append((on, op, lit, name, ret))
    # negated zero literal and a folded constant expression
    src += "fn vf_lit_div_negzero(x: float) -> float { x / -0.0 }\nfn vf_fold_div() -> float { 1.0 / 0.0 }\nfn vf_unfold_div(a: float, b: float) -> float { a / b }\n"
    calls += ["vf_lit_div_negzero(1.0)", "vf_fold_div()", "vf_unfold_div(1.0, 2.0)"]
    full = src + "\n".join(calls) + "\n"
    samples = []
    n = hold = 0
    rdir = os.path.join(VERIF, "replays", "C05")
    for mode in ("opt", "noopt"):
        prog = bytecode.compile_source(full, no_opt=(mode == "noopt"))
        for on, op, lit, name, ret in cases + [("div", "/", "-0.0", "vf_lit_div_negzero", "float")]:
            n += 1
            try:
                m1, lit_paths, inp1 = api.call(prog, name, lambda i: [i.make("float")])
                m2, var_paths, inp2 = api.call(prog, "vf_var_%s" % on, lambda i: [i.make("float"), i.make("float")])
            except (InternalFault, Unsupported) as e:
                outcome.inconc("float family %s: %s" % (name, e))
                continue
            stats["queries"] += m1.queries + m2.queries
            x1 = inp1.leaves[0]
            x2, y2 = inp2.leaves
            bits = float_bits(float(lit))
            bad = None
            s = z3.Solver()
            s.set("timeout", 60000)
            # NaN results are not modelled bit-exactly: compare on non-NaN inputs
            nonnan = z3.Not(z3.fpIsNaN(z3.fpBVToFP(x1, z3.Float64())))
            for p in lit_paths:
                for q in var_paths:
                    if p.status == "dead" or q.status == "dead":
                        continue
                    s.push()
                    s.add(*p.cond, *q.cond, x1 == x2, y2 == I(bits), nonnan)
                    t1 = time.time()
                    if s.check() == z3.sat:
                        if p.status != q.status:
                            bad = ("literal form ends with %s, variable form with %s" % (p.status, q.status), s.model())
                        elif p.status == "done":
                            a, b = api.result_value(p), api.result_value(q)
                            s.add(a.v != b.v)
                            if s.check() == z3.sat:
                                bad = ("different results", s.model())
                    stats["solver_s"] += time.time() - t1
                    stats["queries"] += 1
                    s.pop()
                    if bad:
                        break
                if bad:
                    break
            entry = {"case": "x %s %s" % (op, lit), "mode": mode, "verdict": "holds" if not bad else "violated: " + bad[0]}
            if bad:
                xv = bad[1].eval(x1, model_completion=True).as_long()
                import struct
                xf = struct.unpack("<d", struct.pack("<Q", xv))[0]
                key = "float_lit_%s_%s:%s" % (on, lit, mode)
                text = src + 'println("lit=" .. %s(%r))\nprintln("var=" .. vf_var_%s(%r, %s))\n' % (name, xf, on, xf, lit)
                real = bytecode.run_source(text, no_opt=(mode == "noopt"))
                os.makedirs(rdir, exist_ok=True)
                path = os.path.join(rdir, key.replace(":", "_").replace("/", "div") + ".abra")
                open(path, "w").write("// %s: %s ; x = %r ; real VM: %s\n%s" % (key, bad[0], xf, real, text))
                if outcome.findings.lookup("C05", key) is not None:
                    outcome.violation(key, bad[0], None)
                else:
                    outcome.violation(key, "x %s %s (literal) vs x %s y with y = %s: %s; x = %r; real VM: %s %r" % (op, lit, op, lit, bad[0], xf, real.get("status"), real.get("output")), path)
            else:
                hold += 1
            samples.append(entry)
        # folded constant: 1.0 / 0.0 must fail like the unfolded form
        n += 1
        m, paths, _ = api.call(prog, "vf_fold_div", lambda i: [])
        st = [p.status for p in paths if p.status != "dead"]
        ok = st == ["DivisionByZero"]
        samples.append({"case": "1.0 / 0.0 (constant expression)", "mode": mode, "verdict": "holds" if ok else "violated: ends with %s" % st})
        if ok:
            hold += 1
        else:
            key = "float_fold_div_zero:%s" % mode
            path = os.path.join(rdir, key.replace(":", "_") + ".abra")
            os.makedirs(rdir, exist_ok=True)
            open(path, "w").write("// constant expression 1.0 / 0.0 must stop with division by zero (status %s)\n%s" % (st, full))
            outcome.violation(key, "the constant expression 1.0 / 0.0 ends with %s instead of the division-by-zero error of the variable form" % st, path)
    return n, hold, samples


def run(outcome, _harnesses):
    t = tier()
    harness_map = _harnesses
    core = gen.core_templates()
    templates = [x for x in core if "C05" in x["tags"]]
    if t == "thorough":
        # (the operand-position family is C02's / C01's: its known findings are keyed there)
        templates = core + gen.lambda_templates() + gen.try_templates()
    cov = tvrun.run_templates("C05", outcome, templates, modes=("opt", "noopt"), validate_vm=(t == "thorough"))
    stats = {"queries": 0, "solver_s": 0.0}
    n, hold, fsamples = float_family(outcome, stats)
    n2, hold2, csamples = float_chain_family(outcome, stats)
    n, hold, fsamples = n + n2, hold + hold2, csamples + fsamples
    cov["evaluations"] += n
    cov["distinct_nontrivial"] += hold
    cov["programs"] += 2
    cov["queries"] += stats["queries"]
    cov["solver_s"] = round(cov["solver_s"] + stats["solver_s"], 2)
    cov["samples"] = cov["samples"][:50] + fsamples[:30]
    cov["rule"] = ("one evaluation = one template compiled by the real compiler in one mode (optimizer on / off): all bytecode paths (S) x all "
                   "reference paths (R) must agree for every input (z3), so the optimized and the unoptimized program agree with each other; "
                   "literal operands: `x op LIT` is compared with the reference of `x op y` (ints, R) or with the variable form y = LIT (floats, S vs S); "
                   "non-trivial = verdict holds")
    cov["functions_encoded"] = ["optimize_bytecode::optimize and assembly::remove_labels_and_constants (run for real, on and off)",
                                "vm instruction model of engine S incl. the immediate forms", "reference semantics R"]
    cov["bounds"] = ("%d integer templates x 2 modes (every arithmetic / comparison operator with variable, literal {0,1,-1,7,MAX,MIN}, literal-left "
                     "and compound-assignment operands; thorough: plus the lambda and `?`/`!` families); float literal family: 9 operators x %d literals + -0.0 + chains `x op a op b` of two literal operands (same-precedence chains over + - *, 3 literal pairs, against the step-by-step variable form) + "
                     "constant folding of 1.0 / 0.0, non-NaN x. Outside: K-level validation of optimize() itself (out of CBMC's reach, measured), "
                     "float ^ and intrinsics." % (len(templates), len(FLOAT_LITS)))
    # literal operands at the VM level: the immediate arms of the REAL step() against the same oracle as the variable arms (engine K);
    # engine S models the instruction set, so a change inside vm.rs is only visible here
    quick_imm = r"c1[56]_(addimm_tt|subimm_tt|mulimm_tt|divimm_tt|modimm_tt|powimm_tt|eqimm_tt|ltimm_tt|leimm_tt|gtimm_tt|geimm_tt)$"
    items = [{"module": m, "name": n, "quick": bool(re.match(quick_imm, n))} for n, m in sorted(harness_map.items()) if re.match(r"c1[56]_\w*imm", n)]
    frag, _ = k_check("C05", outcome, items, quick_timeout=600, thorough_timeout=1200, jobs=12)
    cov["immediate_arms_kani"] = {k: v for k, v in frag.items() if k != "samples"}
    cov["evaluations"] += frag["evaluations"]
    cov["distinct_nontrivial"] += frag["distinct_nontrivial"]
    cov["queries"] += frag["vccs_generated"]
    cov["solver_s"] = round(cov["solver_s"] + frag["solver_s"], 2)
    cov["samples"] = cov["samples"][:60] + frag["samples"][:12]
    cov["functions_encoded"].append("vm::VmGreenThread::step: every *Imm arm of the integer and float instructions (Kani, same oracles as the variable arms in C15 / C16)")
    cov["bounds"] += (" VM level: each immediate arm of the real step() for all 2^64 operand values and a symbolic constant table (integers: i128 oracle / contract stubs; "
                      "floats: all bit patterns against the total-order reference); quick = one register mode per arm, thorough = all modes.")
    return "translation_validation", cov, ["R (refsem.py) is the reference semantics", "the S instruction model (validated against the real VM in ./check C02)",
                                           "z3's IEEE-754 theory for non-NaN operands"]
