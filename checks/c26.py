"""C26: array operations match a list model and fail cleanly.
K part: the array arms of the real VM step() (harnesses c26_*).  S part: operation sequences over the compiled
prelude array code, executed symbolically (values and indices symbolic) against a Python list model."""
import itertools
import os
import sys
import time

sys.path.insert(0, os.path.join(os.path.dirname(os.path.abspath(__file__)), "..", "symex"))
import z3  # noqa: E402
import api  # noqa: E402
import bytecode  # noqa: E402
from svm import I, InternalFault, Unsupported  # noqa: E402
from vcommon import VERIF, tier  # noqa: E402

# P push(x) | O pop() (observed) | L len | E is_empty | G a[i] (observed) | S a[i] = x | W swap(i, j) | R remove(i) (swap-remove)
# C clear | F find(x) | N contains(x) | K clone then push on the clone (independence) | D replace by array.filled(x, 2)
OPS = "POLEGSWRCFNKD"


def gen_function(name, ops, init_len):
    params, body = [], ["  let out: array<int> = []"]
    init = []
    for i in range(init_len):
        params.append("e%d: int" % i)
        init.append("e%d" % i)
    body.append("  var a: array<int> = [%s]" % ", ".join(init))
    for n, op in enumerate(ops):
        x, i, j = "x%d" % n, "i%d" % n, "j%d" % n
        if op == "P":
            params.append(x + ": int")
            body.append("  a.push(%s)" % x)
        elif op == "O":
            body.append("  out.push(a.pop())")
        elif op == "L":
            body.append("  out.push(a.len())")
        elif op == "E":
            body.append("  if a.is_empty() { out.push(1) } else { out.push(0) }")
        elif op == "G":
            params.append(i + ": int")
            body.append("  out.push(a[%s])" % i)
        elif op == "S":
            params += [i + ": int", x + ": int"]
            body.append("  a[%s] = %s" % (i, x))
        elif op == "W":
            params += [i + ": int", j + ": int"]
            body.append("  a.swap(%s, %s)" % (i, j))
        elif op == "R":
            params.append(i + ": int")
            body.append("  a.remove(%s)" % i)
        elif op == "C":
            body.append("  a.clear()")
        elif op == "F":
            params.append(x + ": int")
            body.append("  let f%d = a.find(%s)" % (n, x))
            body.append("  if f%d.is_some() { out.push(f%d.unwrap()) } else { out.push(-1) }" % (n, n))
        elif op == "N":
            params.append(x + ": int")
            body.append("  if a.contains(%s) { out.push(1) } else { out.push(0) }" % x)
        elif op == "K":
            body.append("  let b%d = Clone.clone(a)" % n)
            body.append("  b%d.push(77)" % n)
            body.append("  out.push(b%d.len())" % n)
        elif op == "D":
            params.append(x + ": int")
            body.append("  a = array.filled(%s, 2)" % x)
    body.append("  out.push(a.len())")
    body.append("  for v in a { out.push(v) }")
    body.append("  out")
    return "fn %s(%s) -> array<int> {\n%s\n}\n" % (name, ", ".join(params), "\n".join(body)), len(params)


class Decider:
    def __init__(self, cond, stats):
        self.s = z3.Solver()
        self.s.set("timeout", 60000)
        self.s.add(cond)
        self.stats = stats

    def implied(self, f):
        t1 = time.time()
        self.s.push()
        self.s.add(z3.Not(f))
        r = self.s.check()
        self.s.pop()
        self.stats["solver_s"] += time.time() - t1
        self.stats["queries"] += 1
        return r == z3.unsat

    def value(self, term):
        """the unique value of term under the path condition, or None"""
        if self.s.check() != z3.sat:
            return None
        v = self.s.model().eval(term, model_completion=True)
        if self.implied(term == v):
            return v.as_signed_long()
        return None


def model_run(ops, init_len, args, dec):
    """Python list model with symbolic element terms; returns (status, observations) or (None, reason) if undecided"""
    it = iter(args)
    a = [next(it) for _ in range(init_len)]
    out = []

    class Split(Exception):
        pass

    def index(term):
        n = len(a)
        if dec.implied(z3.Or(term < I(0), term >= I(n))):
            return "oob"
        k = dec.value(term)
        if k is None or not (0 <= k < n):
            # not decided by the path condition: the caller splits the path into the cases index = 0 .. n-1 and out of range
            e = Split()
            e.cases = [term == I(j) for j in range(n)] + [z3.Or(term < I(0), term >= I(n))]
            raise e
        return k
    try:
        return _model_ops(ops, a, it, out, index, dec, Split)
    except Split as sp:
        return None, sp.cases


def _model_ops(ops, a, it, out, index, dec, Split):
    for op in ops:
        if op == "P":
            a.append(next(it))
        elif op == "O":
            if not a:
                return "ArrayOutOfBounds", out
            out.append(a.pop())
        elif op == "L":
            out.append(I(len(a)))
        elif op == "E":
            out.append(I(1 if not a else 0))
        elif op == "G":
            k = index(next(it))
            if k == "oob":
                return "ArrayOutOfBounds", out
            if k is None:
                return None, "index not decided by the path condition"
            out.append(a[k])
        elif op == "S":
            k = index(next(it))
            x = next(it)
            if k == "oob":
                return "ArrayOutOfBounds", out
            if k is None:
                return None, "index not decided"
            a[k] = x
        elif op == "W":
            ki, kj = next(it), next(it)
            # prelude swap: temp = a[i]; a[i] = a[j]; a[j] = temp  (index i is evaluated first)
            k1 = index(ki)
            if k1 == "oob":
                return "ArrayOutOfBounds", out
            k2 = index(kj)
            if k2 == "oob":
                return "ArrayOutOfBounds", out
            if k1 is None or k2 is None:
                return None, "index not decided"
            a[k1], a[k2] = a[k2], a[k1]
        elif op == "R":
            k = index(next(it))
            if k == "oob" or not a:
                return "ArrayOutOfBounds", out
            if k is None:
                return None, "index not decided"
            a[k], a[-1] = a[-1], a[k]
            a.pop()
        elif op == "C":
            del a[:]
        elif op in ("F", "N"):
            x = next(it)
            found = -1
            for k, e in enumerate(a):
                if dec.implied(e == x):
                    found = k
                    break
                if not dec.implied(e != x):
                    sp = Split()
                    sp.cases = [e == x, e != x]
                    raise sp
            out.append(I(found) if op == "F" else I(1 if found >= 0 else 0))
        elif op == "K":
            out.append(I(len(a) + 1))
        elif op == "D":
            x = next(it)
            a[:] = [x, x]
    out.append(I(len(a)))
    out.extend(a)
    return "done", out


def compare(st, status, obs, dec):
    if status != st.status:
        return "program ends with %s, list model says %s" % (st.status, status)
    if status == "done":
        rv = api.result_value(st)
        elems = st.heap[rv.v][1]
        if len(elems) != len(obs):
            return "number of observations differs"
        if not dec.implied(z3.And(*[e.v == o for e, o in zip(elems, obs)])):
            return "observations differ from the list model"
    return None


def sequences(t):
    quick = [("PG", 0), ("PO", 0), ("O", 0), ("G", 2), ("S", 2), ("SG", 2), ("W", 3), ("R", 3), ("RL", 1), ("CE", 2), ("F", 3), ("N", 2),
             ("K", 2), ("D", 1), ("PPOO", 0), ("PSG", 1), ("OOO", 2), ("WG", 2), ("RR", 2), ("CP", 1)]
    if t != "thorough":
        return quick
    seqs = list(quick)
    for n in (1, 2):
        for tup in itertools.product(OPS, repeat=n):
            for init in (0, 2):
                seqs.append(("".join(tup), init))
    for tup in itertools.product("POGSWR", repeat=3):
        seqs.append(("".join(tup), 1))
    return sorted(set(seqs))


def independence_templates():
    """arrays of arrays: array.filled and Clone must produce independent deep copies (no element aliases the argument, the original or a
    sibling).  Each template: (name, source, number of int parameters, expected observations as a function of the argument terms)."""
    out = []
    for n in (1, 2, 3):
        src = """fn vf_fill_nested_%(n)d(e0: int, e1: int, x: int, y: int) -> array<int> {
  let out: array<int> = []
  let row = [e0, e1]
  let g = array.filled(row, %(n)d)
  row[0] = x
  for r in g { out.push(r[0]) }
  g[0][1] = y
  out.push(row[1])
  g[%(last)d].push(5)
  out.push(row.len())
  out.push(g[0].len())
  out.push(g.len())
  out
}
""" % {"n": n, "last": n - 1}
        out.append(("vf_fill_nested_%d" % n, src, 4,
                    (lambda n: lambda a: [a[0]] * n + [a[1], I(2), I(3 if n == 1 else 2), I(n)])(n)))
    src = """fn vf_fill_then_mutate_sibling(e0: int, x: int) -> array<int> {
  let out: array<int> = []
  let g = array.filled([e0], 3)
  g[1][0] = x
  g[2].push(x)
  out.push(g[0][0])
  out.push(g[1][0])
  out.push(g[2][0])
  out.push(g[0].len())
  out.push(g[2].len())
  out
}
"""
    out.append(("vf_fill_then_mutate_sibling", src, 2, lambda a: [a[0], a[1], a[0], I(1), I(2)]))
    src = """fn vf_clone_nested(e0: int, e1: int, x: int, y: int) -> array<int> {
  let out: array<int> = []
  let g = [[e0], [e1]]
  let c = Clone.clone(g)
  c[0][0] = x
  c[1].push(y)
  g[1][0] = y
  out.push(g[0][0])
  out.push(g[1].len())
  out.push(c[0][0])
  out.push(c[1].len())
  out.push(c[1][0])
  out.push(g[1][0])
  out
}
"""
    out.append(("vf_clone_nested", src, 4, lambda a: [a[0], I(1), a[2], I(2), a[1], a[3]]))
    return out


def run_independence(outcome, stats, rdir):
    """returns (obligations, refuted, samples)"""
    tpls = independence_templates()
    src = "".join(t[1] for t in tpls)
    full = src + "\n".join("%s(%s)" % (t[0], ", ".join("0" for _ in range(t[2]))) for t in tpls) + "\n"
    prog = bytecode.compile_source(full)
    n_obl = n_hold = 0
    samples = []
    for name, _src, nparams, expect in tpls:
        entry = {"template": name}
        try:
            m, done, inp = api.call(prog, name, lambda i: [i.make("int") for _ in range(nparams)], max_steps=60000, max_paths=500)
        except InternalFault as e:
            outcome.violation("%s:internal_fault" % name, "internal fault (host crash) in %s: %s" % (name, e), write(rdir, name + "_fault", full, str(e)))
            continue
        except Unsupported as e:
            outcome.inconc("%s: outside the S model: %s" % (name, e))
            continue
        stats["queries"] += m.queries
        stats["solver_s"] += m.solver_s
        exp = expect(inp.leaves)
        entry["paths"] = len(done)
        verdict = "holds"
        for st in done:
            if st.status == "dead":
                continue
            n_obl += 1
            s = z3.Solver()
            s.set("timeout", 60000)
            if st.cond:
                s.add(*st.cond)
            if st.status == "done":
                rv = api.result_value(st)
                elems = st.heap[rv.v][1] if rv is not None and rv.tag == "Array" else None
                if elems is None or len(elems) != len(exp):
                    mismatch = z3.BoolVal(True)
                else:
                    mismatch = z3.Or(*[e.v != x for e, x in zip(elems, exp)])
                s.add(mismatch)
                what = "observations differ from independent-copy semantics"
            else:
                what = "ends with %s" % st.status
            t1 = time.time()
            r = s.check()
            stats["solver_s"] += time.time() - t1
            stats["queries"] += 1
            if r == z3.unsat:
                n_hold += 1
                continue
            if r == z3.unknown:
                outcome.inconc("%s: solver unknown" % name)
                continue
            verdict = "violated"
            vals = [s.model().eval(v, model_completion=True).as_signed_long() for v in inp.leaves]
            key = "%s:%s" % (name[3:], "mismatch" if st.status == "done" else "status")
            entry["counterexample"] = vals
            if outcome.findings.lookup("C26", key) is not None:
                outcome.violation(key, what, None)
                break
            lit = lambda v: "(-9223372036854775807 - 1)" if v == -(1 << 63) else ("(%d)" % v if v < 0 else str(v))  # noqa: E731
            text = src + "println(%s(%s))\n" % (name, ", ".join(lit(v) for v in vals))
            real = bytecode.run_source(text)
            want_vals = [z3.simplify(z3.substitute(x, *[(leaf, I(v)) for leaf, v in zip(inp.leaves, vals)])) if z3.is_expr(x) else x for x in exp]
            want = "[ " + ", ".join(str(w.as_signed_long()) for w in want_vals) + " ]"
            path = write(rdir, key, text, "%s ; arguments %s ; expected %s ; real VM: %s" % (what, vals, want, real))
            if real.get("status") != "done" or real.get("output", "").strip() != want:
                outcome.violation(key, "%s: %s with arguments %s [real VM printed %r, independent copies give %s]" % (name, what, vals, real.get("output"), want), path)
            else:
                outcome.inconc("%s: counterexample %s did not reproduce on the real VM (%s)" % (name, vals, path))
            break
        entry["verdict"] = verdict
        samples.append(entry)
    return n_obl, n_hold, samples


def run(outcome, harnesses):
    t = tier()
    # ---- K part
    import ktable
    from kcheck import k_check
    items = [{"module": m, "name": n, "quick": not n.endswith("_oo") and not n.endswith("_to")} for n, m in sorted(harnesses.items()) if n.startswith("c26_")]
    kfrag, _ = k_check("C26", outcome, items, quick_timeout=400, thorough_timeout=1200)
    # ---- S part
    seqs = sequences(t)
    src = ""
    calls, fns = [], []
    for idx, (ops, init) in enumerate(seqs):
        name = "vf_a_%d_%s_%d" % (idx, ops, init)
        f, nparams = gen_function(name, ops, init)
        src += f
        calls.append("%s(%s)" % (name, ", ".join("0" for _ in range(nparams))))
        fns.append((name, ops, init, nparams))
    full = src + "\n".join(calls) + "\n"
    prog = bytecode.compile_source(full)
    stats = {"queries": 0, "solver_s": 0.0}
    samples = []
    n_obl = n_hold = 0
    rdir = os.path.join(VERIF, "replays", "C26")
    for name, ops, init, nparams in fns:
        entry = {"sequence": ops, "initial_length": init}
        try:
            m, done, inp = api.call(prog, name, lambda i: [i.make("int") for _ in range(nparams)], max_steps=60000, max_paths=3000)
        except InternalFault as e:
            key = "%s_%d:internal_fault" % (ops, init)
            outcome.violation(key, "internal fault (host crash) in %s: %s" % (name, e), write(rdir, key, full, str(e)))
            continue
        except Unsupported as e:
            outcome.inconc("%s: outside the S model: %s" % (name, e))
            continue
        stats["queries"] += m.queries
        stats["solver_s"] += m.solver_s
        if m.bound_hit:
            outcome.inconc("%s: path bound reached" % name)
        entry["paths"] = len(done)
        verdict = "holds"
        for st in done:
            if st.status == "dead":
                continue
            n_obl += 1
            cond = z3.And(*st.cond) if st.cond else z3.BoolVal(True)
            # the list model is replayed under the path condition; where the path condition does not decide an index or an
            # equality the path is split into the cases and each satisfiable case is compared separately
            work = [cond]
            problem = None
            dec = None
            guard = 0
            while work and problem is None and guard < 64:
                guard += 1
                c = work.pop()
                dec = Decider(c, stats)
                if dec.s.check() != z3.sat:
                    continue
                status, obs = model_run(ops, init, inp.leaves, dec)
                if status is None:
                    work.extend(z3.And(c, extra) for extra in obs)
                    continue
                problem = compare(st, status, obs, dec)
            if guard >= 64:
                outcome.inconc("%s: list model needs more than 64 case splits on one path" % name)
                continue
            if problem is None:
                n_hold += 1
                continue
            verdict = "violated"
            dec.s.check()
            vals = [dec.s.model().eval(v, model_completion=True).as_signed_long() for v in inp.leaves]
            key = "%s_%d:%s" % (ops, init, "status" if "ends with" in problem else "mismatch")
            entry["counterexample"] = vals
            if outcome.findings.lookup("C26", key) is not None:
                outcome.violation(key, problem, None)
            else:
                lit = lambda v: "(-9223372036854775807 - 1)" if v == -(1 << 63) else ("(%d)" % v if v < 0 else str(v))  # noqa: E731
                text = src + "println(%s(%s))\n" % (name, ", ".join(lit(v) for v in vals))
                real = bytecode.run_source(text)
                path = write(rdir, key, text, "%s ; arguments %s ; real VM: %s" % (problem, vals, real))
                outcome.violation(key, "%s: %s with arguments %s [real VM: %s / %r]" % (name, problem, vals, real.get("status"), real.get("output")), path)
            break
        entry["verdict"] = verdict
        samples.append(entry)
    try:
        i_obl, i_hold, i_samples = run_independence(outcome, stats, rdir)
    except bytecode.CompileError as e:
        outcome.inconc("independence templates do not compile: %s" % str(e)[-300:])
        i_obl = i_hold = 0
        i_samples = []
    n_obl += i_obl
    n_hold += i_hold
    samples = i_samples + samples
    cov = {
        "evaluations": n_obl + kfrag["evaluations"],
        "distinct_nontrivial": n_hold + kfrag["distinct_nontrivial"],
        "rule": "S: one evaluation = one bytecode path of one operation sequence (symbolic values and indices; a symbolic index forks over "
                "the concrete length plus the out-of-range case); the list model is replayed under the path condition and z3 must prove the "
                "observations equal and the termination status identical. K: one evaluation = one Kani harness on an array arm of the real "
                "step(). non-trivial = holds with a satisfiable path condition / satisfied reachability witnesses",
        "samples": samples[:50] + kfrag["samples"][:10],
        "functions_encoded": ["prelude: array.push/pop/len/is_empty/swap/remove/clear/find/contains/filled, Clone for array, Index, for-in (bytecode)",
                              "vm::step arms GetIndex SetIndex ArrayPush ArrayPushIntImm ArrayPop ArrayLength ConstructArray DeconstructArray (Kani)"],
        "bounds": "S: %d sequences (quick: curated; thorough: all of length <= 2 over 13 operations from initial lengths 0 and 2, all of length 3 "
                  "over {push,pop,get,set,swap,remove}); elements/indices symbolic 64-bit. K: arrays of length <= 3. Independence: %d templates over arrays of "
                  "arrays (array.filled of a row the caller keeps, n = 1..3; mutation of siblings; Clone of a nested array) with symbolic elements, "
                  "observations must equal independent-deep-copy semantics. Outside: longer sequences; other operations on "
                  "arrays of heap values; iteration with mutation." % (len(fns), len(i_samples)),
        "queries": stats["queries"] + kfrag["vccs_generated"],
        "solver_s": round(stats["solver_s"] + kfrag["solver_s"], 2),
        "programs": 1,
        "kani": {k: kfrag[k] for k in ("harnesses_passed", "harnesses_total_in_tier", "kani_wall_s", "stubs")},
    }
    return "model_checking", cov, ["the S instruction model agrees with the real VM (K arm harnesses; ./check C02 differential run)",
                                   "remove(i) is the documented swap-remove of the prelude (order not preserved)"]


def write(rdir, key, src, note):
    os.makedirs(rdir, exist_ok=True)
    path = os.path.join(rdir, key.replace(":", "_") + ".abra")
    open(path, "w").write("// C26 %s\n// %s\n%s" % (key, note, src))
    return path
