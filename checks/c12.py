"""C12 -- see matchlib.py / matchrun.py"""
import matchrun

LEVEL = "model_checking"
RULE = "one evaluation = one match template (type, arm list): the real checker's verdict is compared with the solver's: accepted => z3 refutes 'some value of the type matches no arm' for every value shape; reported non-exhaustive => z3 finds an unmatched value, and every listed missing case is parsed and must cover an unmatched value; non-trivial = verdict holds"
ASSUME = ['pattern semantics of checks/matchlib.py::matches is the reference (language reference: patterns.md)', 'the S instruction model agrees with the real VM (K arm harnesses; ./check C02 differential run)']


def run(outcome, _harnesses):
    cov = matchrun.run_property("C12", outcome)
    cov["rule"] = RULE
    return LEVEL, cov, ASSUME
