"""C07: unreachable memory is reclaimed and a dropped runtime frees everything.
Engine K: one sweep step (freed iff unmarked, accounting, phase end), the pacing trigger, ArrayPush accounting.
Engine M2: the Drop implementations (thread heap, string constants) on the MIR -- every object released exactly once."""
import os
import re
import sys
import time

sys.path.insert(0, os.path.join(os.path.dirname(os.path.abspath(__file__)), "..", "mir"))
import z3  # noqa: E402
import dropcheck  # noqa: E402
import sched  # noqa: E402
from mirvm import Unknown  # noqa: E402
from kcheck import k_check
from vcommon import VERIF, tier


def run(outcome, harness_map):
    thorough = tier() == "thorough"
    n_obl = n_ok = paths = 0
    cov = {}
    try:
        mir, dump_s = sched.dump_mir()
        D = dropcheck.DropModel(mir)
        maxk = 4 if thorough else 3
        for k in range(0, maxk + 1):
            for st, objs, heap_size in D.thread_drop(k):
                paths += 1
                dropped = st.ghost["dropped"]
                for o in objs:
                    n_obl += 1
                    c = dropped.count(o)
                    if c != 1:
                        s = z3.Solver()
                        s.add(*st.pc)
                        s.check()
                        kinds = {d.name(): s.model()[d].as_long() for d in s.model().decls() if d.name().startswith("kind_")}
                        key = "thread_drop:%s" % ("leak" if c == 0 else "double_free")
                        rdir = os.path.join(VERIF, "replays", "C07")
                        os.makedirs(rdir, exist_ok=True)
                        path = os.path.join(rdir, key.replace(":", "_") + ".txt")
                        open(path, "w").write("Drop for VmGreenThread with a heap of %d objects, kinds %s (indices into ObjectKind %s): object #%d is released %d times\n"
                                              % (k, kinds, D.kinds, objs.index(o), c))
                        outcome.violation(key, "dropping a thread releases object %d of %d (kinds %s) %d times" % (objs.index(o), k, kinds, c), path)
                    else:
                        n_ok += 1
                n_obl += 1
                if D.m.sat(st.pc, heap_size != 0):
                    outcome.violation("thread_drop:accounting", "heap_size is not zero after the thread's heap was released", None)
                else:
                    n_ok += 1
        sh = None
        for k in range(0, maxk + 1):
            sh = D.shared_drop(k)
            if sh is None:
                n_obl += 1
                outcome.violation("shared_drop:missing", "VmSharedReadonly has no Drop implementation: the program's string constants are never released", None)
                break
            for st, objs in sh:
                paths += 1
                for o in objs:
                    n_obl += 1
                    c = st.ghost["dropped"].count(o)
                    if c != 1:
                        outcome.violation("shared_drop:%s" % ("leak" if c == 0 else "double_free"),
                                          "dropping the shared block releases string constant %d of %d %d times" % (objs.index(o), k, c), None)
                    else:
                        n_ok += 1
        # ---- one call of sweep(batch): freed iff unmarked, survivors reset to white, accounting, end of the phase
        tf = D.tf
        reported_keys = set()
        for k in range(0, maxk + 1):
            for st, th, objs, marks, sizes, gcv, total in D.sweep_run(k):
                paths += 1
                dropped = st.ghost["dropped"]
                remaining = [r.base[1] for r in th.f[tf["heap_list"]].items]
                checks = []
                checks.append(("sweep:double_free", len(set(dropped)) != len(dropped), "an object is released twice by sweep"))
                checks.append(("sweep:lost_object", sorted(dropped + remaining) != sorted(objs), "after sweep the heap list plus the released objects is not the original heap"))
                freed_bytes = z3.BitVecVal(0, 64)
                for o in dropped:
                    i = objs.index(o)
                    freed_bytes = freed_bytes + sizes[i]
                    checks.append(("sweep:freed_marked", marks[i] == gcv, "sweep releases an object that is marked (reachable)"))
                all_reset = True
                for o in remaining:
                    i = objs.index(o)
                    final = st.heap[o].f["hdr"].f[1]
                    if final is marks[i]:
                        all_reset = False  # not examined in this call
                        continue
                    checks.append(("sweep:kept_unmarked", marks[i] != gcv, "sweep keeps an object that is not marked"))
                    checks.append(("sweep:not_reset", final != z3.Not(gcv), "a surviving object is not reset to white for the next cycle"))
                checks.append(("sweep:accounting", th.f[tf["heap_size"]] != total - freed_bytes, "heap_size is not reduced by exactly the released bytes"))
                state = th.f[tf["gc_state"]]
                idle = (state.disc if not z3.is_expr(state.disc) else z3.simplify(state.disc).as_long()) == D.gc_states["Idle"]
                if idle:
                    checks.append(("sweep:idle_too_early", not all_reset, "the phase ends although some object was not examined"))
                    checks.append(("sweep:baseline", th.f[tf["last_gc_heap_size"]] != th.f[tf["heap_size"]], "the pacing baseline is not updated when the phase ends"))
                else:
                    checks.append(("sweep:phase_not_ended", all_reset and len(objs) > 0 and False, ""))
                for key, bad, text in checks:
                    n_obl += 1
                    badz = bad if z3.is_expr(bad) else z3.BoolVal(bool(bad))
                    if key in reported_keys:
                        continue
                    if not z3.is_false(z3.simplify(badz)) and D.m.sat(st.pc, badz):
                        reported_keys.add(key)
                        s = z3.Solver()
                        s.add(*st.pc)
                        s.add(badz)
                        s.check()
                        mdl = {d.name(): str(s.model()[d]) for d in s.model().decls()}
                        rdir = os.path.join(VERIF, "replays", "C07")
                        os.makedirs(rdir, exist_ok=True)
                        path = os.path.join(rdir, key.replace(":", "_") + ".txt")
                        open(path, "w").write("sweep(batch) from Sweeping { index: 0 } over %d objects: %s\nmodel: %s\nreleased: %s remaining: %s\n" % (
                            k, text, mdl, [objs.index(o) for o in dropped], [objs.index(o) for o in remaining]))
                        outcome.violation(key, "%s (heap of %d objects; %s)" % (text, k, mdl), path)
                    else:
                        n_ok += 1
        for name, st, bad in D.m.obligations:
            n_obl += 1
            if st is not None:
                outcome.violation("drop:" + re.sub(r"\W+", "_", name)[:50], name, None)
            else:
                n_ok += 1
        cov.update({"paths": paths, "mir_statements_executed": D.m.stmts, "mir_dump_s": round(dump_s, 1), "library_summaries": sorted(D.m.used_summaries),
                    "queries": D.m.queries, "solver_s": round(D.m.solver_s, 2), "mir_functions": [D.fn_thread, D.fn_dealloc, D.fn_shared]})
    except Unknown as e:
        outcome.inconc("engine M2 could not interpret the Drop implementations: %s" % e)
    items = [{"module": m, "name": n, "quick": True} for n, m in sorted(harness_map.items()) if re.match(r"c07_|c26_push_len|c26_pop_len\d_cap", n)]
    frag, _ = k_check("C07", outcome, items, quick_timeout=900, thorough_timeout=1800, jobs=8)
    cov["sweep_and_pacing_kani"] = frag
    cov["evaluations"] = n_obl + frag["evaluations"]
    cov["distinct_nontrivial"] = n_ok + frag["distinct_nontrivial"]
    cov["queries"] = cov.get("queries", 0) + frag["vccs_generated"]
    cov["solver_s"] = round(cov.get("solver_s", 0) + frag["solver_s"], 2)
    cov["functions_encoded"] = ["<VmGreenThread as Drop>::drop, ObjectHeader::{dealloc, nbytes}, <VmSharedReadonly as Drop>::drop, VmGreenThread::sweep (MIR, engine M2)",
                                "vm::VmGreenThread::maybe_gc (pacing trigger), ArrayPush heap accounting (Kani)"]
    cov["bounds"] = ("release on drop: heaps / constant tables of 0..%d objects, every object of symbolic kind (all five kinds) and symbolic size < 2^40 with "
                     "heap_size = sum of sizes; obligations: released exactly once and as its own kind, accounting back to zero, no arithmetic check fails. "
                     "Reclamation: one call of sweep(batch) with a symbolic batch from the start of the sweep phase over the same heaps with symbolic mark bits "
                     "(released iff unmarked, never twice, survivors reset to white, accounting exact, phase ends only when every object was examined, "
                     "pacing baseline updated) on the MIR; the pacing trigger for symbolic heap sizes < 2^40 under Kani (the Kani sweep harness became "
                     "intractable when channels started to own recursive in-flight values: dealloc's channel arm drags their drop glue in). Outside: std's drop glue of the thread's other fields (Vec, Arc, mpsc::Sender: > 900 s under CBMC, "
                     "measured), that Runtime owns its threads (Rust ownership), boundedness of whole programs (composition of the steps), channels." % (4 if thorough else 3))
    cov["rule"] = ("drop layer: one evaluation = one object-released-exactly-once / accounting / arithmetic obligation on one symbolic path of the MIR (z3); "
                   "sweep and pacing: one Kani harness; non-trivial = refuted / SUCCESS with witnesses")
    cov["samples"] = frag["samples"]
    return "model_checking", cov, ["library summaries listed in the evidence (slice iteration, Box::from_raw + drop = release, alloc::dealloc = release)",
                                   "an object's nbytes() is an uninterpreted size that the accounting invariant sums", "nightly MIR == stable semantics"]
