"""C28: values are rendered as text exactly as documented -- engine S over the compiled prelude ToString code."""
import os
import sys
import time

sys.path.insert(0, os.path.join(os.path.dirname(os.path.abspath(__file__)), "..", "symex"))
import z3  # noqa: E402
import api  # noqa: E402
import bytecode  # noqa: E402
from svm import BStr, I, InternalFault, TStr, Unsupported, to_tokens  # noqa: E402
from vcommon import VERIF, tier  # noqa: E402

# type grammar: 'int' 'bool' 'void' 'string' ('tuple',[t..]) ('array',t) ('option',t) ('result',t,e)


def abra_type(t):
    if isinstance(t, str):
        return t
    k = t[0]
    if k == "tuple":
        return "(" + ", ".join(abra_type(x) for x in t[1]) + ")"
    if k == "array":
        return "array<%s>" % abra_type(t[1])
    if k == "option":
        return "option<%s>" % abra_type(t[1])
    if k == "result":
        return "result<%s, %s>" % (abra_type(t[1]), abra_type(t[2]))
    raise ValueError(t)


def shapes(t, maxlen):
    """all concrete shapes of a type: yields input specs for api.Inputs.make"""
    if t in ("int", "bool", "void"):
        yield t
    elif t == "string":
        yield ("string", 2)
    elif t[0] == "tuple":
        def rec(i):
            if i == len(t[1]):
                yield []
                return
            for s in shapes(t[1][i], maxlen):
                for rest in rec(i + 1):
                    yield [s] + rest
        for fs in rec(0):
            yield ("tuple", fs)
    elif t[0] == "array":
        for n in range(maxlen + 1):
            if n == 0:
                yield ("arrayv", [])
            else:
                elem_shapes = list(shapes(t[1], max(0, maxlen - 1)))
                # same shape for all elements, plus (for n == 2) a mixed pair when the element type has several shapes
                for s in elem_shapes:
                    yield ("arrayv", [s] * n)
                if n == 2 and len(elem_shapes) > 1:
                    yield ("arrayv", [elem_shapes[0], elem_shapes[-1]])
    elif t[0] == "option":
        for s in shapes(t[1], maxlen):
            yield ("variant", 0, s)
        yield ("variant", 1, None)
    elif t[0] == "result":
        for s in shapes(t[1], maxlen):
            yield ("variant", 0, s)
        for s in shapes(t[2], maxlen):
            yield ("variant", 1, s)


class Builder:
    """creates the symbolic value for a shape and, in lockstep, the expected token stream"""

    def __init__(self, inp, ty):
        self.inp = inp

    def make(self, shape, ty):
        inp = self.inp
        st = inp.st
        if shape == "int":
            v = inp.make("int")
            return v, [("int", v.v)]
        if shape == "bool":
            v = inp.make("bool")
            return v, [("bool", v.v)]
        if shape == "void":
            return inp.make("void"), [("lit", b"nil")]
        if isinstance(shape, tuple) and shape[0] == "string":
            v = inp.make(shape)
            return v, [("str", st.heap[v.v][1])]
        if shape[0] == "tuple":
            vals, toks = [], [("lit", b"(")]
            for i, (s, t) in enumerate(zip(shape[1], ty[1])):
                v, tk = self.make(s, t)
                vals.append(v)
                if i:
                    toks.append(("lit", b", "))
                toks += tk
            toks.append(("lit", b")"))
            from svm import Val
            return Val("Struct", st.alloc(("Struct", vals))), toks
        if shape[0] == "arrayv":
            vals, toks = [], [("lit", b"[ ")]
            for i, s in enumerate(shape[1]):
                v, tk = self.make(s, ty[1])
                vals.append(v)
                if i:
                    toks.append(("lit", b", "))
                toks += tk
            toks.append(("lit", b" ]"))
            from svm import Val
            return Val("Array", st.alloc(("Array", vals))), toks
        if shape[0] == "variant":
            from svm import Val
            tag, ps = shape[1], shape[2]
            if ty[0] == "option":
                if tag == 1:
                    return Val("Variant", st.alloc(("Variant", 1, inp.make("void")))), [("lit", b"none")]
                v, tk = self.make(ps, ty[1])
                return Val("Variant", st.alloc(("Variant", 0, v))), [("lit", b"some(")] + tk + [("lit", b")")]
            inner_ty = ty[1] if tag == 0 else ty[2]
            v, tk = self.make(ps, inner_ty)
            return Val("Variant", st.alloc(("Variant", tag, v))), [("lit", b"ok(" if tag == 0 else b"err(")] + tk + [("lit", b")")]
        raise ValueError(shape)


def match_tokens(actual, expected, cond, solver_stats):
    """returns None if actual == expected on every value satisfying cond, else a description / model"""
    # normalise actual into a list of items with lits split lazily
    act = []
    for t in actual:
        act.append(list(t))
    ai = 0
    obligations = []

    def take_lit(n_bytes):
        nonlocal ai
        if ai >= len(act) or act[ai][0] != "lit":
            return None
        b = act[ai][1]
        got = b[:n_bytes]
        rest = b[n_bytes:]
        if rest:
            act[ai][1] = rest
        else:
            ai += 1
        return got

    for e in expected:
        if e[0] == "lit":
            got = take_lit(len(e[1]))
            if got != e[1]:
                return "expected text %r, rendered %r" % (e[1], got)
        elif e[0] == "bool":
            if ai < len(act) and act[ai][0] == "lit" and act[ai][1].startswith(b"true"):
                take_lit(4)
                obligations.append(e[1])
            elif ai < len(act) and act[ai][0] == "lit" and act[ai][1].startswith(b"false"):
                take_lit(5)
                obligations.append(z3.Not(e[1]))
            else:
                return "expected true/false at this position"
        elif e[0] == "int":
            if ai < len(act) and act[ai][0] == "itoa":
                obligations.append(act[ai][1] == e[1])
                ai += 1
            else:
                return "expected the decimal rendering of an int at this position, got %s" % (act[ai][0] if ai < len(act) else "end")
        elif e[0] == "str":
            if ai < len(act) and act[ai][0] == "bstr" and act[ai][1] is e[1]:
                ai += 1
            elif ai < len(act) and act[ai][0] == "bstr":
                a, b = act[ai][1], e[1]
                from svm import str_eq
                obligations.append(str_eq(a, b))
                ai += 1
            else:
                # a symbolic string may be empty on this path: then nothing is rendered for it
                obligations.append(e[1].len_term() == I(0))
    if ai != len(act):
        return "extra rendered text %s" % (act[ai:],)
    if not obligations:
        return None
    s = z3.Solver()
    s.set("timeout", 60000)
    s.add(cond, z3.Not(z3.And(*obligations)))
    t1 = time.time()
    r = s.check()
    solver_stats["solver_s"] += time.time() - t1
    solver_stats["queries"] += 1
    if r == z3.unsat:
        return None
    if r == z3.unknown:
        return "solver unknown"
    return ("model", s.model())


TYPES_QUICK = [
    "int", "bool", "void", "string",
    ("tuple", ["int", "bool"]), ("tuple", ["int", "string", "bool"]),
    ("array", "int"), ("array", "bool"), ("array", "string"),
    ("option", "int"), ("option", "string"), ("result", "int", "string"), ("result", "void", "int"),
    ("array", ("tuple", ["int", "bool"])), ("option", ("array", "int")), ("tuple", ["int", ("tuple", ["bool", "string"])]),
    ("array", ("option", "int")), ("result", ("tuple", ["int", "int"]), "string"),
]
TYPES_THOROUGH = TYPES_QUICK + [
    ("tuple", ["int", "int", "int", "int"]), ("array", ("array", "int")), ("option", ("option", "bool")),
    ("result", ("option", "int"), ("array", "bool")), ("tuple", [("array", "int"), ("option", "string"), "void"]),
    ("array", ("result", "int", "string")),
]


def run(outcome, _harnesses):
    t = tier()
    types = TYPES_THOROUGH if t == "thorough" else TYPES_QUICK
    maxlen = 2
    src = ""
    calls = []
    fnames = []
    for i, ty in enumerate(types):
        name = "vf_str_%d" % i
        src += 'fn %s(x: %s) -> string { "" .. x }\n' % (name, abra_type(ty))
        fnames.append((name, ty))
    # reachability: call each function once with a dummy value built from the first shape
    def dummy(shape, ty):
        if shape == "int":
            return "1"
        if shape == "bool":
            return "true"
        if shape == "void":
            return "nil"
        if shape[0] == "string":
            return '"s"'
        if shape[0] == "tuple":
            return "(" + ", ".join(dummy(s, x) for s, x in zip(shape[1], ty[1])) + ")"
        if shape[0] == "arrayv":
            return "[" + ", ".join(dummy(s, ty[1]) for s in shape[1]) + "]"
        if shape[0] == "variant":
            if ty[0] == "option":
                return "option.none" if shape[1] == 1 else "option.some(%s)" % dummy(shape[2], ty[1])
            return ("result.ok(%s)" % dummy(shape[2], ty[1])) if shape[1] == 0 else ("result.err(%s)" % dummy(shape[2], ty[2]))
    for name, ty in fnames:
        shp = [s for s in shapes(ty, maxlen)]
        pick = [s for s in shp if not (s[0] == "arrayv" and not s[1])] or shp
        calls.append("let d_%s: %s = %s\n%s(d_%s)" % (name, abra_type(ty), dummy(pick[0], ty), name, name))
    full = src + "\n".join(calls) + "\n"
    prog = bytecode.compile_source(full)
    stats = {"queries": 0, "solver_s": 0.0}
    samples = []
    n_obl = n_hold = 0
    rdir = os.path.join(VERIF, "replays", "C28")
    for name, ty in fnames:
        for shape in shapes(ty, maxlen):
            holder = {}

            def build(inp, shape=shape, ty=ty):
                v, toks = Builder(inp, ty).make(shape, ty)
                holder["exp"] = toks
                # a parameter of type void occupies no stack slot (void erasure); nested voids are real nil values
                return [] if ty == "void" else [v]
            try:
                m, done, inp = api.call(prog, name, build, max_steps=100000, max_paths=4000)
            except InternalFault as e:
                key = "%s:internal_fault" % abra_type(ty)
                outcome.violation(key, "internal fault while rendering %s shape %s: %s" % (abra_type(ty), shape, e), write(rdir, key, full, str(e)))
                continue
            except Unsupported as e:
                outcome.inconc("%s shape %s: outside the S model: %s" % (abra_type(ty), shape, e))
                continue
            stats["queries"] += m.queries
            stats["solver_s"] += m.solver_s
            entry = {"type": abra_type(ty), "shape": str(shape), "paths": len(done), "verdict": "holds"}
            for st in done:
                if st.status == "dead":
                    continue
                n_obl += 1
                cond = z3.And(*st.cond) if st.cond else z3.BoolVal(True)
                if st.status != "done":
                    res = "rendering stops with %s" % st.status
                else:
                    rv = api.result_value(st)
                    actual = to_tokens(st.heap[rv.v][1])
                    res = match_tokens(actual, holder["exp"], cond, stats)
                if res is None:
                    n_hold += 1
                    continue
                entry["verdict"] = "violated"
                key = "%s:%s" % (abra_type(ty).replace(" ", ""), "render")
                desc = res if isinstance(res, str) else "rendered text differs for a concrete value"
                entry["detail"] = desc if isinstance(res, str) else "model"
                if outcome.findings.lookup("C28", key) is not None:
                    outcome.violation(key, desc, None)
                else:
                    # structural mismatches are value-independent: replay with the dummy value on the real VM
                    text = src + "let d: %s = %s\nprintln(\"\" .. d)\n" % (abra_type(ty), dummy(shape, ty))
                    real = bytecode.run_source(text)
                    path = write(rdir, key, text, "%s ; real VM: %s" % (desc, real))
                    outcome.violation(key, "%s shape %s: %s [real VM printed %r]" % (abra_type(ty), shape, desc, real.get("output")), path)
                break
            samples.append(entry)
    cov = {
        "evaluations": n_obl,
        "distinct_nontrivial": n_hold,
        "rule": "one evaluation = one bytecode path of rendering one value shape (type x option/result variant x array length) with symbolic "
                "leaves; the rendered token stream (literal text, decimal-of(int term), symbolic string) must equal the documented format "
                "token by token, and z3 must refute that a rendered `true`/`false`/int token disagrees with the leaf value; non-trivial = holds",
        "samples": samples[:80],
        "functions_encoded": ["prelude: ToString for int, bool, void, string, option, result, array (array_to_string_helper), tuples 2..4; `..`"],
        "bounds": "%d types nested to depth 2-3, arrays of length 0..2, strings <= 2 ASCII bytes, both variants of every option/result. Ints render as an "
                  "opaque decimal-of(x) token (the StringFromInt arm is tied to i64::to_string by K harness c28_string_from_int). Outside: floats, "
                  "user structs/enums, print/println plumbing (host call)." % len(types),
        "queries": stats["queries"],
        "solver_s": round(stats["solver_s"], 2),
        "programs": 1,
    }
    return "model_checking", cov, ["the S instruction model agrees with the real VM (K arm harnesses; ./check C02 differential run)"]


def write(rdir, key, src, note):
    os.makedirs(rdir, exist_ok=True)
    path = os.path.join(rdir, key.replace(":", "_").replace("<", "_").replace(">", "_").replace(",", "_").replace("(", "_").replace(")", "_") + ".abra")
    open(path, "w").write("// C28 %s\n// %s\n%s" % (key, note, src))
    return path
