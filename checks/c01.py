"""C01: accepted programs never hit an internal VM fault.
Engine K: every non-arithmetic arm of the real step() (ktable entry C01).
Engine S+R: the templates that stress the operand-stack discipline of the compiler's output (tag C01): an internal fault, a host
panic or any difference from the reference on some input is a violation.  The whole C02 family also counts internal faults."""
import os
import sys

sys.path.insert(0, os.path.join(os.path.dirname(os.path.abspath(__file__)), "..", "symex"))
import gen  # noqa: E402
import ktable  # noqa: E402
import tvrun  # noqa: E402
from vcommon import tier  # noqa: E402


def run(outcome, harness_map):
    level, cov, assumptions = ktable.run_k("C01", outcome, harness_map)
    templates = [t for t in gen.core_templates() if "C01" in t["tags"]]
    if tier() == "thorough":
        templates = gen.core_templates() + gen.operand_position_templates()
    scov = tvrun.run_templates("C01", outcome, templates, modes=("opt",), validate_vm=False)
    cov["program_level_templates"] = {k: v for k, v in scov.items() if k != "samples"}
    cov["evaluations"] += scov["evaluations"]
    cov["distinct_nontrivial"] += scov["distinct_nontrivial"]
    cov["queries"] += scov["queries"]
    cov["solver_s"] = round(cov["solver_s"] + scov["solver_s"], 2)
    cov["samples"] = cov["samples"][:60] + scov["samples"][:10]
    cov["bounds"] += (" Program level: %d templates compiled by the real compiler and executed symbolically for all inputs; "
                      "an internal fault / host panic on any path is a violation (quick: the templates tagged C01, thorough: the whole C02 family)." % len(templates))
    return level, cov, assumptions + ["R (refsem.py) and the S instruction model for the program-level part"]
