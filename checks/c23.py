"""C23 -- engine S (compiler output) vs reference semantics R on the dedicated template family (see symex/gen.py)."""
import os
import sys

sys.path.insert(0, os.path.join(os.path.dirname(os.path.abspath(__file__)), "..", "symex"))
import gen  # noqa: E402
import tvrun  # noqa: E402
from vcommon import tier  # noqa: E402


TEMPLATES = gen.try_templates
RULE = 'one evaluation = one ?/! template for one combination of input variants (some/none, ok/err) with symbolic payloads: bytecode paths (S) x reference paths (R); z3 refutes a different return value, panic status or set of executed statements (recorded in an accumulator array); non-trivial = holds'
BOUNDS = '%d templates: ? in statement position then operand position with an accumulator recording which statements ran, ? inside nested call arguments, ! on both operands, ? inside a helper (propagates out of the helper only); option<int> and result<int,int>, every combination of variants for two inputs, payloads symbolic. Outside: custom types implementing the try interface, ? in lambdas.'


def run(outcome, _harnesses):
    templates = TEMPLATES()
    cov = tvrun.run_templates("C23", outcome, templates, modes=("opt", "noopt") if tier() == "thorough" else ("opt",))
    cov["rule"] = RULE
    cov["functions_encoded"] = ["parse -> check -> translate_bytecode (-> optimize) run for real on every template", "engine S instruction model", "reference semantics R"]
    cov["bounds"] = BOUNDS % len(templates)
    return "translation_validation", cov, ["R (refsem.py) is the reference semantics", "the S instruction model, validated against the real VM on concrete inputs on every run"]
