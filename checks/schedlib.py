"""C10 / C11 scheduler-layer obligations on engine M2 (mir/sched.py), with native replay of counterexamples."""
import os
import sys
import time

sys.path.insert(0, os.path.join(os.path.dirname(os.path.abspath(__file__)), "..", "mir"))
import z3  # noqa: E402
import mirvm  # noqa: E402
import sched  # noqa: E402
from sched import KIND, OUT_SPAWN  # noqa: E402
from vcommon import VERIF  # noqa: E402

KNAME = {v: k for k, v in KIND.items()}
FUNCTIONS = ["vm::Runtime::run_n_steps", "vm::Runtime::run_threads_round_robin", "vm::Runtime::finish_thread_turn",
             "vm::Runtime::drain_new_threads", "vm::Runtime::update_status_helper", "vm::Runtime::try_get_main", "vm::Runtime::main",
             "vm::Runtime::top", "vm::VmGreenThread::can_run", "vm::VmGreenThread::status", "vm::VmGreenThread::run_n_steps", "vm::VmGreenThread::validate"]


class Ctx:
    def __init__(self):
        self.mir, self.dump_s = sched.dump_mir()
        self.queries = 0
        self.solver_s = 0.0
        self.paths = 0
        self.obligations = 0
        self.summaries = set()
        self.stmts = 0
        self.violations = []  # (key, description, model dict)
        self.witness = {}

    def absorb(self, S):
        self.queries += S.m.queries
        self.solver_s += S.m.solver_s
        self.summaries |= S.m.used_summaries
        self.stmts += S.m.stmts
        for name, st, bad in S.m.obligations:
            self.obligations += 1
            if st is not None:
                self.violations.append((name, name, self.model_of(S, st.pc + [bad], st)))
        S.m.obligations = []

    def model_of(self, S, conds, st, extra_vars=()):
        s = z3.Solver()
        s.add(*conds)
        if s.check() != z3.sat:
            return None
        m = s.model()
        out = {"script": {}, "log": list(st.ghost["log"]) if st is not None else None}
        for d in m.decls():
            nm = d.name()
            if nm.startswith("out_t"):
                out["script"][nm] = m[d].as_long()
            elif nm in ("budget", "b1", "b2") or nm.startswith("init_t"):
                out[nm] = m[d].as_long()
        return out

    def refute(self, S, st, bad, key, desc, extra_pc=()):
        """obligation: `bad` unsatisfiable under st.pc (+ extra_pc)"""
        self.obligations += 1
        bad = bad if z3.is_expr(bad) else z3.BoolVal(bool(bad))
        if z3.is_false(z3.simplify(bad)):
            return True
        if S.m.sat(list(st.pc) + list(extra_pc), bad):
            self.violations.append((key, desc, self.model_of(S, list(st.pc) + list(extra_pc) + [bad], st)))
            return False
        return True

    def note(self, S, st, cond, name, extra_pc=()):
        """reachability witness"""
        if self.witness.get(name):
            return
        cond = cond if z3.is_expr(cond) else z3.BoolVal(bool(cond))
        if z3.is_false(z3.simplify(cond)):
            return
        if S.m.sat(list(st.pc) + list(extra_pc), cond):
            self.witness[name] = True


def bv32(n):
    return z3.BitVecVal(n, 32)


# ------------------------------------------------------------------ C11
def status_obligations(ctx, S, s, kind, consumed, kval, budget, main_obj, nlog0, tag, bound):
    mf = S.facts(s, main_obj)
    nlog = len(s.ghost["log"]) - nlog0
    ctx.refute(S, s, consumed != bv32(nlog), "steps_consumed", "steps_consumed differs from the number of instructions executed (%s)" % tag)
    ctx.refute(S, s, z3.UGT(consumed, budget), "budget_exceeded", "a budget of k executed more than k instructions (%s)" % tag)
    if kind == KIND["Done"]:
        ctx.refute(S, s, z3.Not(mf["done"]), "done_without_main_done", "completion reported while the main program has not finished (%s)" % tag)
    else:
        ctx.refute(S, s, z3.And(mf["done"], z3.Not(mf["pend"])), "main_done_not_reported",
                   "the main program has finished but %s was reported (%s)" % (KNAME[kind], tag))
    if kind == KIND["MainThreadError"]:
        ctx.refute(S, s, z3.Not(mf["err"]), "error_without_main_error", "a main-thread error reported although main has no error (%s)" % tag)
        tok = kval.fields[KIND["MainThreadError"]][0]
        ctx.refute(S, s, tok is not mf["err_token"], "error_payload", "the reported error is not the main thread's error (%s)" % tag)
    else:
        ctx.refute(S, s, z3.And(mf["err"], z3.Not(mf["done"]), z3.Not(mf["pend"])), "main_error_not_reported",
                   "the main program failed but %s was reported (%s)" % (KNAME[kind], tag))
    queued = [S.facts(s, o) for o in S.queued(s)]
    anyp = z3.Or(mf["pend"], *[q["pend"] for q in queued]) if queued else mf["pend"]
    if kind == KIND["PendingHostFunc"]:
        ctx.refute(S, s, z3.Not(anyp), "pending_without_host_call", "PendingHostFunc reported although no thread waits for the host (%s)" % tag)
    if kind == KIND["OutOfSteps"]:
        ctx.refute(S, s, anyp, "host_call_not_surfaced", "a thread waits for the host but OutOfSteps was reported (%s)" % tag)
        runnable = [z3.And(z3.Not(q["done"]), z3.Not(q["err"]), z3.Not(q["pend"]), z3.Not(q["ffi"])) for q in queued]
        if runnable:
            ctx.refute(S, s, z3.And(z3.ULT(consumed, budget), z3.Or(*runnable)), "early_out_of_steps",
                       "OutOfSteps returned before the budget was used although a thread could still run (%s)" % tag)
    # finished tasks are discarded and never stepped again (obligation inside the scripted step); main is kept
    if kind == KIND["Done"]:
        for s2, top in S.top(s.fork()):
            ctx.refute(S, s2, top is not mf["top"], "top_after_done", "after completion Runtime::top() is not the main program's last value (%s)" % tag)
            ctx.note(S, s2, True, "top() evaluated after Done")
        ctx.note(S, s, z3.Or(*[z3.Not(q["done"]) for q in queued]) if queued else False, "main done while another task is still alive")
        ctx.note(S, s, anyp, "main done while a task waits for the host")
    ctx.note(S, s, kind == KIND["MainThreadError"], "main error reported")
    ctx.note(S, s, z3.And(kind == KIND["OutOfSteps"], consumed == budget, budget == bound), "budget exhausted at the bound")
    ctx.note(S, s, kind == KIND["PendingHostFunc"] and not z3.is_true(z3.simplify(mf["pend"])), "a task's host call surfaced")
    ctx.note(S, s, s.ghost["spawned"], "a spawn happened")


def check_status(ctx, nthreads, bound, symbolic_init=True, second_call_bound=None):
    """one call of run_n_steps with a symbolic budget from an arbitrary valid queue state; optionally a second call afterwards
    (the status must stay truthful over call sequences, e.g. completion is still reported on a later call)"""
    S = sched.Sched(ctx.mir, allow_spawn=True)
    st, _ = S.initial(nthreads, symbolic_init)
    budget = z3.BitVec("budget", 32)
    st.pc.append(z3.ULE(budget, bound))
    main_obj = st.ghost["threads"][0]
    res = S.run_n_steps(st, budget)
    ctx.paths += len(res)
    tag = "n%d" % nthreads
    for s, kind, consumed, kval in res:
        status_obligations(ctx, S, s, kind, consumed, kval, budget, main_obj, 0, tag, bound)
        if second_call_bound is not None:
            b2 = z3.BitVec("b2", 32)
            s.pc.append(z3.ULE(b2, second_call_bound))
            n0 = len(s.ghost["log"])
            res2 = S.run_n_steps(s, b2)
            ctx.paths += len(res2)
            for s2, k2, c2, kv2 in res2:
                status_obligations(ctx, S, s2, k2, c2, kv2, b2, main_obj, n0, tag + ", second call", second_call_bound)
                if kind == KIND["Done"]:
                    ctx.refute(S, s2, k2 != KIND["Done"], "done_not_sticky", "completion was reported, but a later call reports %s (%s)" % (KNAME[k2], tag))
                    ctx.note(S, s2, True, "a call after completion")
    ctx.absorb(S)
    return len(res)


# ------------------------------------------------------------------ C10
def check_split(ctx, nthreads, bound, symbolic_init=True):
    S = sched.Sched(ctx.mir, allow_spawn=True)
    st0, _ = S.initial(nthreads, symbolic_init)
    b1, b2 = z3.BitVec("b1", 32), z3.BitVec("b2", 32)
    st0.pc += [z3.ULE(b1, bound), z3.ULE(b2, bound)]
    resA = []
    for s1, k1, c1, _ in S.run_n_steps(st0.fork(), b1):
        if k1 == KIND["OutOfSteps"]:
            for s2, k2, c2, _ in S.run_n_steps(s1, b2):
                resA.append((s2, k2, c1 + c2, False))
        else:
            resA.append((s1, k1, c1, True))
    ctx.paths += len(resA)
    tag = "n%d" % nthreads
    pairs = 0
    for sa, ka, ca, cut in resA:
        la = sa.ghost["log"]
        # the unsliced run is executed under the sliced run's path condition (same script variables, same b1, b2): only the
        # jointly satisfiable continuations are explored
        stb = st0.fork()
        stb.pc = list(sa.pc)
        resB = [(s, k, c) for s, k, c, _ in S.run_n_steps(stb, b1 + b2)]
        ctx.paths += len(resB)
        for sb, kb, cb in resB:
            lb = sb.ghost["log"]
            pairs += 1
            joint = sb.pc
            n = min(len(la), len(lb))
            if la[:n] != lb[:n]:
                ctx.refute(S, sa, True, "order", "slicing the budget changes which thread is stepped when: %s vs %s (%s)" % (la, lb, tag), extra_pc=joint)
                continue
            must_equal = (not cut) or ka == KIND["Done"] or len(la) == len(lb)
            if must_equal:
                if len(la) != len(lb):
                    ctx.refute(S, sa, True, "length", "sliced run executes %d steps, unsliced run %d (%s)" % (len(la), len(lb), tag), extra_pc=joint)
                elif ka != kb:
                    ctx.refute(S, sa, True, "status", "sliced run ends with %s, unsliced run with %s (%s)" % (KNAME[ka], KNAME[kb], tag), extra_pc=joint)
                else:
                    ctx.refute(S, sa, ca != cb, "consumed", "total steps consumed differ between the sliced and the unsliced run (%s)" % tag, extra_pc=joint)
            else:
                # the sliced run stopped at the cut with a status the embedder has to act on; the unsliced run went on
                if len(lb) < len(la):
                    ctx.refute(S, sa, True, "unsliced_shorter", "the unsliced run stops earlier than the sliced one (%s)" % tag, extra_pc=joint)
            ctx.note(S, sa, z3.And(b1 == bound, b2 == bound, ca == bv32(2 * bound)), "both slices used fully", extra_pc=joint)
            ctx.note(S, sa, sa.ghost["spawned"], "a spawn happened", extra_pc=joint)
            ctx.note(S, sa, ka == KIND["Done"] and not cut, "main finished in the second slice", extra_pc=joint)
            ctx.note(S, sa, cut and ka == KIND["PendingHostFunc"], "first slice ended on a host call", extra_pc=joint)
    ctx.absorb(S)
    return pairs


# ------------------------------------------------------------------ native replay
REPLAY_TEMPLATE = r'''
// Native replay of a scheduler counterexample found by engine M2 (property %(prop)s): %(desc)s
// The symbolic script is realised with real instructions: continue = PushBool, done = Stop, error = DivideIntImm by a zero
// constant, pending host call = HostFunc(7), spawn = SpawnTask(0, <code of the new task>); the real Runtime::run_n_steps runs it.
#[test]
fn %(name)s() {
    use std::collections::VecDeque;
    use std::sync::mpsc;
    let scripts: Vec<Vec<u8>> = vec![%(scripts)s];
    let inits: Vec<u8> = vec![%(inits)s]; // 0 runnable, 1 failed, 2 waiting for the host
    let nthreads: usize = %(nthreads)d;
    let budgets_a: Vec<u32> = vec![%(budgets_a)s];
    let budgets_b: Vec<u32> = vec![%(budgets_b)s];
    let len = %(len)d;
    let build = || {
        let mut program: Vec<Instr> = Vec::new();
        let spawn_target = (nthreads * len) as u32; // the spawned task runs the script of the next thread id
        for (ti, sc) in scripts.iter().enumerate() {
            for k in 0..len {
                let o = if k < sc.len() { sc[k] } else { 0 };
                program.push(match o {
                    1 => Instr::Stop,
                    2 => Instr::DivideIntImm(Reg::Top.encode(), Reg::Top.encode(), 0),
                    3 => Instr::HostFunc(7),
                    4 => Instr::SpawnTask((len + 1) as u16, ProgramCounter(spawn_target)), // the captures seed the new task's operand stack
                    _ => Instr::PushBool(true),
                });
            }
        }
        let shared = Arc::new(mk_shared(program, vec![0], vec![]));
        let (sender, receiver) = mpsc::channel();
        let mut q: VecDeque<Box<VmGreenThread>> = VecDeque::new();
        for ti in 0..nthreads {
            let mut t = Box::new(VmGreenThread::new(shared.clone(), sender.clone()));
            t.pc = ProgramCounter((ti * len) as u32);
            t.is_main = ti == 0;
            for _ in 0..(2 * len + 2) { t.value_stack.push(Value::from(1i64)); }
            if inits[ti] == 1 { t.error = Some(Box::new(t.make_error(VmErrorKind::DivisionByZero))); }
            if inits[ti] == 2 { t.pending_host_func = Some(7); }
            q.push_back(t);
        }
        (Runtime { run_queue: q, new_threads: receiver, finished_main_thread: None }, sender)
    };
    let observe = |rt: &Runtime| -> (bool, bool, bool, bool, bool) {
        let m = rt.try_get_main();
        let any_pending = rt.run_queue.iter().any(|t| t.pending_host_func.is_some()) || m.map(|t| t.pending_host_func.is_some()).unwrap_or(false);
        let any_runnable = rt.run_queue.iter().any(|t| t.can_run());
        match m { Some(t) => (t.done, t.error.is_some(), t.pending_host_func.is_some(), any_pending, any_runnable), None => (false, false, false, any_pending, any_runnable) }
    };
    let kind_code = |k: &RuntimeStatusKind| -> u8 { match k { RuntimeStatusKind::Done => 0, RuntimeStatusKind::PendingHostFunc => 1, RuntimeStatusKind::OutOfSteps => 2, RuntimeStatusKind::MainThreadError(_) => 3 } };
    let run = |budgets: &Vec<u32>, check: bool| -> (u8, u32, bool, bool, bool, Vec<u32>, Vec<(usize, u32)>) {
        let (mut rt, _keep) = build();
        let mut code = 2u8;
        let mut consumed = 0u32;
        let mut per_call: Vec<u32> = Vec::new();
        let mut was_done = false;
        for b in budgets.iter() {
            let st = rt.run_n_steps(*b);
            code = kind_code(&st.kind);
            consumed += st.steps_consumed;
            per_call.push(st.steps_consumed);
            let (d, e, p, anyp, anyr) = observe(&rt);
            println!("run_n_steps({}) -> kind {} consumed {} main(done {}, error {}, pending {}) any pending {} any runnable {}", b, code, st.steps_consumed, d, e, p, anyp, anyr);
            if check {
                // C11 obligations on the real runtime, after every call
                assert!(st.steps_consumed <= *b, "a budget of k executed more than k instructions");
                if code == 0 { assert!(d, "completion reported while main has not finished"); } else { assert!(!(d && !p), "main finished but completion was not reported"); }
                if code == 3 { assert!(e, "error reported without a main error"); } else { assert!(!(e && !d && !p), "main failed but no error was reported"); }
                if code == 1 { assert!(anyp, "PendingHostFunc reported although no thread waits for the host"); }
                if code == 2 { assert!(!anyp, "a thread waits for the host but OutOfSteps was reported"); }
                if code == 2 && st.steps_consumed < *b { assert!(!anyr, "OutOfSteps returned before the budget was used although a thread could still run"); }
                if was_done { assert!(code == 0, "completion was reported, but a later call reports something else"); }
                if code == 0 { was_done = true; let _ = rt.top(); }
            }
            if !check && code != 2 { break; }
        }
        let (d, e, p, _, _) = observe(&rt);
        // steps_consumed must equal the number of instructions executed: every scripted instruction advances its thread's pc by
        // one, so the pcs of the threads that still exist give the count (only when no task can have finished and been discarded)
        let no_task_finishes = scripts.iter().skip(1).all(|sc| !sc.contains(&1));
        if check && no_task_finishes {
            let mut executed: u32 = 0;
            for t in rt.run_queue.iter().map(|b| b.as_ref()).chain(rt.finished_main_thread.iter().map(|b| b.as_ref())) {
                let region = (t.pc.0 as usize) / len;
                executed += t.pc.0 - (region * len) as u32;
            }
            println!("instructions executed (from the pcs) {} steps_consumed (sum) {}", executed, consumed);
            assert!(executed == consumed, "steps_consumed differs from the number of instructions executed");
        }
        // per-thread progress (which thread executed how many instructions), from the pcs of the threads that still exist
        let mut progress: Vec<(usize, u32)> = Vec::new();
        for t in rt.run_queue.iter().map(|b| b.as_ref()).chain(rt.finished_main_thread.iter().map(|b| b.as_ref())) {
            let region = (t.pc.0 as usize) / len;
            progress.push((region, t.pc.0 - (region * len) as u32));
        }
        progress.sort();
        (code, consumed, d, e, p, per_call, progress)
    };
    let a = run(&budgets_a, budgets_b.is_empty());
    if !budgets_b.is_empty() {
        let b = run(&budgets_b, false);
        println!("unsliced {:?} -> kind {} consumed {} main(done {}, error {}, pending {})", budgets_b, b.0, b.1, b.2, b.3, b.4);
        println!("progress sliced {:?} unsliced {:?}", a.6, b.6);
        if a.0 == 2 || a.0 == 0 || a.1 == b.1 {
            assert!(a.0 == b.0 && a.1 == b.1, "slicing the budget changed the outcome");
            assert!(a.6 == b.6, "slicing the budget changed which thread executed how many instructions");
        } else {
            assert!(b.1 >= a.1, "the unsliced run stopped earlier than the sliced run");
        }
    }
}
'''


def replay(prop, key, desc, model, nthreads_hint=3):
    """Build and run a native test realising the model on the real Runtime. Returns (reproduced|None, path, note)."""
    from kani_runner import KaniSession
    if not model:
        return None, None, "no model"
    script = model.get("script", {})
    nthreads = 3
    length = 12
    rows = []
    for t in range(3):
        row = []
        for k in range(length):
            row.append(str(script.get("out_t%d_s%d" % (t, k), 0)))
        rows.append("vec![" + ", ".join(row) + "]")
    if "budget" in model:
        ba, bb = [model["budget"]] + ([model["b2"]] if "b2" in model else []), []
    else:
        ba, bb = [model.get("b1", 0), model.get("b2", 0)], [model.get("b1", 0) + model.get("b2", 0)]
    # number of initial threads: taken from the key suffix (nK) if present
    import re
    m = re.search(r"\(n(\d)", desc)
    n0 = int(m.group(1)) if m else 2
    name = "m2_replay_%s_%s" % (prop.lower(), re.sub(r"\W+", "_", key))
    code = REPLAY_TEMPLATE % {"prop": prop, "desc": desc.replace("\n", " "), "name": name, "scripts": ", ".join(rows), "nthreads": n0, "inits": ", ".join(str(model.get("init_t%d" % t, 0)) for t in range(3)),
                              "budgets_a": ", ".join(str(x) for x in ba), "budgets_b": ", ".join(str(x) for x in bb), "len": length}
    sess = KaniSession(prop + "_m2")
    res, log = sess.run_playback("vm_playback.rs", [("assertion", desc, name, code)], release=False, test_filter=name)
    rdir = os.path.join(VERIF, "replays", prop)
    os.makedirs(rdir, exist_ok=True)
    path = os.path.join(rdir, name + ".rs")
    with open(path, "w") as f:
        f.write("// %s\n// model: %s\n// native result: %s\n%s" % (desc, model, res, code))
    st = res.get(name)
    return (st == "FAILED") if st in ("FAILED", "ok") else None, path, "native test %s" % st


def finish(prop, ctx, outcome, pairs_or_paths, bounds_text, t0):
    seen = set()
    for key, desc, model in ctx.violations:
        if key in seen:
            continue
        seen.add(key)
        if outcome.findings.lookup(prop, key) is not None:
            outcome.violation(key, desc, None)
            continue
        rep, path, note = replay(prop, key, desc, model)
        if rep:
            outcome.violation(key, "%s; schedule %s [replayed on the real Runtime: %s]" % (desc, model, note), path)
        elif rep is False:
            outcome.inconc("scheduler obligation '%s' is violated in the MIR model (schedule %s) but the native replay on the real Runtime passed (%s): "
                           "a summary or the oracle is suspected" % (desc, model, path))
        else:
            outcome.inconc("scheduler obligation '%s' is violated in the MIR model (schedule %s); native replay did not run (%s)" % (desc, model, note))
    cov = {
        "evaluations": ctx.obligations,
        "distinct_nontrivial": ctx.obligations - len(ctx.violations),
        "paths": ctx.paths,
        "joint_path_pairs": pairs_or_paths,
        "mir_statements_executed": ctx.stmts,
        "queries": ctx.queries,
        "solver_s": round(ctx.solver_s, 2),
        "mir_dump_s": round(ctx.dump_s, 1),
        "functions_encoded": FUNCTIONS,
        "library_summaries": sorted(ctx.summaries),
        "witnesses": ctx.witness,
        "bounds": bounds_text,
    }
    return cov
