"""C14 -- see matchlib.py / matchrun.py"""
import matchrun

LEVEL = "translation_validation"
RULE = "one evaluation = one bytecode path of one accepted match template executed symbolically over a symbolic scrutinee: for each arm, z3 refutes 'this arm is the first that matches (pattern semantics) and the compiled code returned a different arm index or different bindings'; non-trivial = verdict holds"
ASSUME = ['pattern semantics of checks/matchlib.py::matches is the reference (language reference: patterns.md)', 'the S instruction model agrees with the real VM (K arm harnesses; ./check C02 differential run)']


def run(outcome, _harnesses):
    cov = matchrun.run_property("C14", outcome)
    cov["rule"] = RULE
    cov["disagreements_checked"] = cov["evaluations"]
    return LEVEL, cov, ASSUME
