"""C32: runtime errors report the failing file, line and call stack.
VM side (engine K): pc_to_error_location and make_stack_trace on symbolic tables.
Compiler side (engine M2): create_source_location_tables on the MIR, composed with the VM's lookup rule."""
import itertools
import os
import re
import sys
import time

sys.path.insert(0, os.path.join(os.path.dirname(os.path.abspath(__file__)), "..", "mir"))
import z3  # noqa: E402
import sched  # noqa: E402
import srcloc  # noqa: E402
from mirvm import Unknown  # noqa: E402
from kcheck import k_check
from vcommon import VERIF, tier


def shapes(max_instr, all_labels_up_to):
    out = []
    for n in range(1, max_instr + 1):
        gaps = n + 1
        if n <= all_labels_up_to:
            masks = range(1 << gaps)
        else:
            masks = [0, 1, 1 << (gaps // 2), (1 << gaps) - 1]
        for mk in masks:
            s = ""
            for g in range(gaps):
                if mk >> g & 1:
                    s += "L"
                if g < n:
                    s += "I"
            out.append(s)
    return sorted(set(out))


REPLAY = r'''
// Native replay of a table-construction counterexample found by engine M2 (C32): %(desc)s
#[test]
fn %(name)s() {
    let mut st = TranslatorState::default();
%(pushes)s
    let tr = std::mem::MaybeUninit::<Translator>::uninit();
    let tr_ref: &Translator = unsafe { &*tr.as_ptr() }; // `self` is not used by the function
    tr_ref.create_source_location_tables(&mut st);
    println!("line {:?} file {:?} func {:?}", st.lineno_table, st.filename_table, st.function_name_table);
    let want: Vec<(u32, u32, u32)> = vec![%(want)s];
    for (i, w) in want.iter().enumerate() {
        let pc = (i + 1) as u32; // instruction i fails => the VM looks up pc = i + 1
        assert!(lookup(&st.lineno_table, pc) == w.0, "line of instruction {}", i);
        assert!(lookup(&st.filename_table, pc) == w.1, "file of instruction {}", i);
        assert!(lookup(&st.function_name_table, pc) == w.2, "function of instruction {}", i);
    }
}
'''


def replay_tables(key, shape, mdl, i, comp):
    from kani_runner import KaniSession
    pushes, want = [], []
    k = 0
    for c in shape:
        if c == "L":
            pushes.append("    st.lines.push(Line::Label(String::new()));")
        else:
            ln, fi, fu = mdl.get("line_%d" % k, 7), mdl.get("file_%d" % k, 1), mdl.get("func_%d" % k, 2)
            pushes.append("    st.lines.push(Line::Instr { instr: Instr::Pop, lineno: %d, file_id: %d, func_id: %d });" % (ln, fi, fu))
            want.append("(%d, %d, %d)" % (ln & 0xFFFFFFFF, fi, fu))
            k += 1
    name = "m2_replay_c32_" + re.sub(r"\W+", "_", key)
    code = REPLAY % {"desc": key, "name": name, "pushes": "\n".join(pushes), "want": ", ".join(want)}
    sess = KaniSession("C32_m2")
    res, _log = sess.run_playback("translate_playback.rs", [("assertion", key, name, code)], release=False, test_filter=name)
    rdir = os.path.join(VERIF, "replays", "C32")
    os.makedirs(rdir, exist_ok=True)
    path = os.path.join(rdir, name + ".rs")
    open(path, "w").write("// model: %s\n// native result: %s\n%s" % (mdl, res, code))
    st = res.get(name)
    return (st == "FAILED") if st in ("FAILED", "ok") else None, path, "native test %s" % st


def run(outcome, harness_map):
    t0 = time.time()
    thorough = tier() == "thorough"
    cov = {"evaluations": 0, "distinct_nontrivial": 0}
    n_obl = n_ok = paths = 0
    witness = False
    reported = set()
    skipped_keys = set()
    try:
        mir, dump_s = sched.dump_mir()
        plan = []
        max_n = 6 if thorough else 5
        for sh in shapes(max_n, 3 if thorough else 2):
            for comp in ("line", "file", "func"):
                plan.append((sh, {comp}))
        for sh in shapes(3, 1):
            plan.append((sh, {"line", "file", "func"}))
        queries = 0
        solver_s = 0.0
        summaries = set()
        stmts = 0
        for sh, symbolic in plan:
            S = srcloc.SrcLoc(mir)
            res = S.run(sh, symbolic)
            paths += len(res)
            for st, trip, tables in res:
                for i, (ln, fi, fu) in enumerate(trip):
                    for comp, want in (("line", ln), ("file", fi), ("func", fu)):
                        n_obl += 1
                        got = srcloc.covering(tables[comp], i)
                        bad = z3.BoolVal(True) if got is None else got != want
                        if S.m.sat(st.pc, bad):
                            s = z3.Solver()
                            s.add(*st.pc)
                            s.add(bad)
                            s.check()
                            mdl = {d.name(): s.model()[d].as_long() for d in s.model().decls()}
                            key = "tables:%s:%s" % (sh, comp)
                            if key in reported:
                                continue
                            if len(reported) >= 3:
                                skipped_keys.add(key)
                                continue
                            reported.add(key)
                            if outcome.findings.lookup("C32", key) is not None:
                                outcome.violation(key, "wrong %s" % comp, None)
                                continue
                            rep, path, note = replay_tables(key, sh, mdl, i, comp)
                            desc = "instruction %d of a %s line list (I = instruction, L = label) is attributed the wrong %s; values %s" % (i, sh, comp, mdl)
                            if rep:
                                outcome.violation(key, desc + " [replayed on the real function: %s]" % note, path)
                            else:
                                outcome.inconc("table obligation violated in the MIR model (%s) but the native replay %s (%s)" % (desc, note, path))
                        else:
                            n_ok += 1
                if len(trip) >= 4 and len(symbolic) == 1 and not witness:
                    c = list(symbolic)[0]
                    idx = {"line": 0, "file": 1, "func": 2}[c]
                    if S.m.sat(st.pc, z3.And(trip[0][idx] != trip[1][idx], trip[1][idx] == trip[2][idx], trip[2][idx] != trip[3][idx])):
                        witness = True
                # strictly increasing start indices (the VM's binary search needs sorted tables)
                for comp in tables:
                    tb = tables[comp]
                    for a, b in zip(tb, tb[1:]):
                        n_obl += 1
                        if S.m.sat(st.pc, z3.UGE(a.items[0], b.items[0])):
                            outcome.violation("tables:%s:%s:order" % (sh, comp), "table start indices are not strictly increasing", None)
                        else:
                            n_ok += 1
            for name, st, bad in S.m.obligations:
                n_obl += 1
                if st is not None:
                    outcome.violation("tables:%s:%s" % (sh, re.sub(r"\W+", "_", name)[:40]), name, None)
                else:
                    n_ok += 1
            queries += S.m.queries
            solver_s += S.m.solver_s
            summaries |= S.m.used_summaries
            stmts += S.m.stmts
        if skipped_keys:
            print("NOTE C32: %d further violating line-list shapes were not replayed (same obligation): %s" % (len(skipped_keys), sorted(skipped_keys)[:6]))
        if not witness:
            outcome.inconc("table model: witness 'runs of equal and different entries' not satisfied")
        cov.update({"line_list_shapes": len(plan), "paths": paths, "mir_statements_executed": stmts, "mir_dump_s": round(dump_s, 1),
                    "library_summaries": sorted(summaries), "queries": queries, "solver_s": round(solver_s, 2)})
    except Unknown as e:
        outcome.inconc("engine M2 could not interpret create_source_location_tables: %s" % e)
    items = [{"module": m, "name": n, "quick": True} for n, m in sorted(harness_map.items()) if re.match(r"c32_(pc_to|stack_trace)", n)]
    frag, _ = k_check("C32", outcome, items, quick_timeout=600, thorough_timeout=1200, jobs=4)
    cov["vm_side_kani"] = frag
    cov["evaluations"] = n_obl + frag["evaluations"]
    cov["distinct_nontrivial"] = n_ok + frag["distinct_nontrivial"]
    cov["queries"] = cov.get("queries", 0) + frag["vccs_generated"]
    cov["solver_s"] = round(cov.get("solver_s", 0) + frag["solver_s"], 2)
    cov["functions_encoded"] = ["translate_bytecode::Translator::create_source_location_tables (MIR, engine M2)",
                                "vm::VmGreenThread::{pc_to_error_location, make_stack_trace, make_error} (Kani)"]
    cov["bounds"] = ("compiler side: line lists of <= %d instructions with labels interleaved (every label placement up to %d instructions, 4 placements beyond), "
                     "one of the three components (line < 2^31, file, function) symbolic at a time plus all three at once for <= 3 instructions; obligation: "
                     "for every instruction i the VM's rule 'entry with the greatest start <= i' yields i's own line / file / function, and start indices are "
                     "strictly increasing. VM side: symbolic tables of <= 3 entries, symbolic pc < 100000, two symbolic call sites. Outside: the text of the "
                     "traceback (format!), which source line the translator assigns to an instruction (update_current_file_and_lineno), instructions "
                     "merged by the peephole pass." % (6 if thorough else 5, 3 if thorough else 2))
    cov["rule"] = ("compiler side: one evaluation = one (instruction, component) obligation on one symbolic path of the MIR, refuted by z3; VM side: one Kani "
                   "harness; non-trivial = refuted / SUCCESS with witnesses")
    cov["samples"] = frag["samples"]
    return "model_checking", cov, ["the library summaries listed in the evidence (Vec iteration, last, push)", "the lookup rule used on the compiler side is the "
                                   "specification the real binary search is checked against in c32_pc_to_error_location", "nightly MIR == stable semantics"]
