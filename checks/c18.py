"""C18: named and default arguments behave like the positional call -- engine S on the real compiler's output.
The call-shape dimension is enumerated (parameter lists of arity <= 3, every suffix of defaults, every split into positional
prefix / named permutation / omitted defaulted parameters, four callee kinds); the argument values are symbolic."""
import itertools
import os
import random
import sys
import time

sys.path.insert(0, os.path.join(os.path.dirname(os.path.abspath(__file__)), "..", "symex"))
import z3  # noqa: E402
import api  # noqa: E402
import bytecode  # noqa: E402
from svm import I, InternalFault, Unsupported  # noqa: E402
from vcommon import VERIF, seed, tier  # noqa: E402

DEFAULTS = [11, 22, -33, 44]
DEFAULT_SRC = ["11", "dflt_b()", "-33", "44"]  # a literal, a call of a top-level function, a negative literal
PRELUDE = "fn dflt_b() -> int { 22 }\n"
KINDS = ["free", "member", "struct", "variant", "variant_dot", "member_qualified"]


def shapes(n):
    """(ndefaults, npositional, named order (tuple of param indexes), omitted set)"""
    out = []
    for nd in range(0, n + 1):
        first_default = n - nd
        for k in range(0, n + 1):
            rest = list(range(k, n))
            # each remaining param: named or omitted (only if defaulted)
            for mask in itertools.product([True, False], repeat=len(rest)):
                named = [p for p, keep in zip(rest, mask) if keep]
                omitted = [p for p, keep in zip(rest, mask) if not keep]
                if any(p < first_default for p in omitted):
                    continue
                for perm in itertools.permutations(named):
                    out.append((nd, k, tuple(perm), tuple(omitted)))
    return out


def decl(kind, n, nd, idx):
    first_default = n - nd
    params = []
    for p in range(n):
        params.append("p%d: int" % p + (" = %s" % DEFAULT_SRC[p] if p >= first_default else ""))
    if kind == "free":
        return "fn callee_%d(%s) -> array<int> { [%s] }\n" % (idx, ", ".join(params), ", ".join("p%d" % p for p in range(n)))
    if kind == "member":
        return ("type Holder%d = {\n  h: int\n}\nextend Holder%d {\n  fn m(self, %s) -> array<int> { [%s] }\n}\n"
                % (idx, idx, ", ".join(params), ", ".join("p%d" % p for p in range(n))))
    if kind == "struct":
        return "type Rec%d = {\n%s\n}\n" % (idx, "\n".join("  " + x for x in params))
    if kind == "member_qualified":
        return ("type Holder%d = {\n  h: int\n}\nextend Holder%d {\n  fn m(self, %s) -> array<int> { [%s] }\n}\n"
                % (idx, idx, ", ".join(params), ", ".join("p%d" % p for p in range(n))))
    return "type Enm%d =\n  | Vr(%s)\n" % (idx, ", ".join(params))


def call(kind, n, idx, k, named, argnames):
    args = [argnames[p] for p in range(k)] + ["p%d = %s" % (p, argnames[p]) for p in named]
    a = ", ".join(args)
    if kind == "free":
        return "callee_%d(%s)" % (idx, a)
    if kind == "member":
        return "Holder%d(0).m(%s)" % (idx, a)
    if kind == "struct":
        return "{ let r = Rec%d(%s)\n  [%s] }" % (idx, a, ", ".join("r.p%d" % p for p in range(n)))
    if kind == "member_qualified":
        # the fully qualified spelling of a member call: the receiver is the first positional argument
        return "Holder%d.m(Holder%d(0)%s%s)" % (idx, idx, ", " if a else "", a)
    if kind == "variant_dot":
        # the constructor is named with a leading dot and its enum comes from the annotation
        return "{ let e: Enm%d = .Vr(%s)\n  match e {\n    .Vr(%s) -> [%s]\n  } }" % (
            idx, a, ", ".join("p%d = q%d" % (p, p) for p in range(n)), ", ".join("q%d" % p for p in range(n)))
    return "match Enm%d.Vr(%s) {\n    .Vr(%s) -> [%s]\n  }" % (idx, a, ", ".join("p%d = q%d" % (p, p) for p in range(n)), ", ".join("q%d" % p for p in range(n)))


def run(outcome, _harnesses):
    t = tier()
    rng = random.Random(seed())
    cases = []
    for n in ((1, 2, 3, 4) if t == "thorough" else (1, 2, 3)):
        for sh in shapes(n):
            for kind in KINDS:
                cases.append((n, sh, kind))
    rdir = os.path.join(VERIF, "replays", "C18")

    def build(cases):
        src = PRELUDE
        calls = []
        fns = []
        for idx, (n, (nd, k, named, omitted), kind) in cases:
            argnames = ["a%d" % p for p in range(n)]
            src += decl(kind, n, nd, idx)
            body = call(kind, n, idx, k, named, argnames)
            src += "fn vf_%d(%s) -> array<int> {\n  %s\n}\n" % (idx, ", ".join("a%d: int" % p for p in range(n)), body)
            calls.append("vf_%d(%s)" % (idx, ", ".join("1" for _ in range(n))))
            fns.append((idx, n, nd, k, named, omitted, kind))
        return src, src + "\n".join(calls) + "\n", fns

    indexed = list(enumerate(cases))
    src, full, fns = build(indexed)
    compile_failures = 0
    rejected = {}
    try:
        prog = bytecode.compile_source(full)
    except bytecode.CompileError:
        # find the call shapes the compiler does not get through, one program per shape
        good = []
        for item in indexed:
            _, one, f1 = build([item])
            try:
                bytecode.compile_source(one)
                good.append(item)
            except bytecode.CompileError as e:
                compile_failures += 1
                idx, n, nd, k, named, omitted, kind = f1[0]
                crash = "panicked at" in str(e)
                shape_key = "%s:%d:%d:%d:%s:%s:compile" % (kind, n, nd, k, "".join(map(str, named)), "".join(map(str, omitted)))
                # a rejection with a diagnostic is one finding per callee spelling (the shapes are listed in the replay); a crash is per shape
                key = shape_key if crash else "%s:named_or_default_call_rejected" % kind
                if not crash:
                    rejected.setdefault(key, []).append(shape_key)
                    if len(rejected[key]) > 1:
                        continue
                what = ("the compiler panics on" if crash else "the compiler rejects") + " a call that the positional form of the same declaration accepts"
                path = write(rdir, key, one, what + ": " + str(e)[-300:].replace("\n", " "))
                if crash or positional_compiles(kind, n, nd):
                    outcome.violation(key, what + " (%s)" % panic_line(str(e)), path)
                else:
                    outcome.inconc("call shape %s: the declaration itself is rejected: %s" % (key, str(e)[-200:].replace("\n", " ")))
        src, full, fns = build(good)
        prog = bytecode.compile_source(full)
    samples = []
    n_obl = n_hold = queries = 0
    solver_s = 0.0
    for idx, n, nd, k, named, omitted, kind in fns:
        name = "vf_%d" % idx
        entry = {"callee": kind, "arity": n, "defaults": nd, "positional": k, "named_order": list(named), "omitted": list(omitted)}
        try:
            m, done, inp = api.call(prog, name, lambda i: [i.make("int") for _ in range(n)])
        except InternalFault as e:
            key = "%s:%d:%d:%s:%s:fault" % (kind, n, k, "".join(map(str, named)), "".join(map(str, omitted)))
            outcome.violation(key, "internal fault: %s" % e, write(rdir, key, full, str(e)))
            continue
        except Unsupported as e:
            outcome.inconc("%s: %s" % (name, e))
            continue
        queries += m.queries
        solver_s += m.solver_s
        want = []
        for p in range(n):
            want.append(I(DEFAULTS[p]) if p in omitted else inp.leaves[p])
        verdict = "holds"
        for st in done:
            if st.status == "dead":
                continue
            n_obl += 1
            s = z3.Solver()
            s.set("timeout", 30000)
            s.add(*st.cond)
            if st.status != "done":
                bad = z3.BoolVal(True)
                what = "the call stops with %s" % st.status
            else:
                rv = api.result_value(st)
                elems = st.heap[rv.v][1]
                bad = z3.Or(*[e.v != w for e, w in zip(elems, want)]) if len(elems) == len(want) else z3.BoolVal(True)
                what = "parameters receive other values than in the positional call"
            s.add(bad)
            t1 = time.time()
            r = s.check()
            solver_s += time.time() - t1
            queries += 1
            if r == z3.unsat:
                n_hold += 1
                continue
            verdict = "violated"
            vals = [s.model().eval(v, model_completion=True).as_signed_long() for v in inp.leaves]
            key = "%s:%d:%d:%s:%s" % (kind, n, k, "".join(map(str, named)), "".join(map(str, omitted)))
            text = src + "println(vf_%d(%s))\n" % (idx, ", ".join("(%d)" % v for v in vals))
            real = bytecode.run_source(text)
            exp = "[ " + ", ".join(str(DEFAULTS[p] if p in omitted else vals[p]) for p in range(n)) + " ]"
            path = write(rdir, key, text, "%s ; arguments %s ; positional call gives %s ; real VM: %s" % (what, vals, exp, real))
            if outcome.findings.lookup("C18", key) is not None:
                outcome.violation(key, what, None)
            elif real.get("output", "").strip() != exp or real.get("status") != "done":
                outcome.violation(key, "%s (callee %s, %d positional, named %s, omitted %s): arguments %s, expected %s, real VM %s %r" % (
                    what, kind, k, named, omitted, vals, exp, real.get("status"), real.get("output")), path)
            else:
                outcome.inconc("call shape %s: disagreement did not reproduce on the real VM" % key)
            break
        entry["verdict"] = verdict
        entry["paths"] = len(done)
        samples.append(entry)
    mis_n, mis_ok, mis_samples = misuse_family(outcome, rdir)
    cov = {
        "evaluations": n_obl,
        "distinct_nontrivial": n_hold,
        "misuse_calls_enumerated_not_solver_decided": {"cases": mis_n, "rejected_with_a_diagnostic": mis_ok, "samples": mis_samples[:24]},
        "rule": "one evaluation = one bytecode path of one call shape (callee kind x arity x defaulted suffix x positional prefix x permutation "
                "of named arguments x omitted defaulted parameters), compiled by the real compiler and executed symbolically with symbolic "
                "argument values; z3 refutes that any parameter receives a value other than in the positional call with defaults filled in; "
                "non-trivial = verdict unsat",
        "samples": samples[:60] + [{"source_excerpt": full[:900]}],
        "programs": 1,
        "call_shapes": len(fns),
        "call_shapes_not_compiled": compile_failures,
        "call_shapes_rejected_by_spelling": {k: len(v) for k, v in rejected.items()},
        "functions_encoded": ["statics (argument reordering / default insertion) and translate_bytecode (run for real)", "engine S instruction model"],
        "bounds": "arity <= 3; defaults on a suffix of the parameters: p0 = 11, p1 = dflt_b() (a call of a top-level function), p2 = -33; callee kinds: free function, member function, "
                  "struct constructor, enum variant constructor (qualified `Enm.Vr(..)` and leading-dot `.Vr(..)`), fully qualified member call `Holder.m(obj, ..)`; quick = all shapes of arity <= 3, thorough = arity <= 4 (%d shapes here). The misuse half of the property (unknown, duplicate, missing, positional-after-named, too many arguments) has no value "
                  "dimension: its call shapes are enumerated and the real checker must reject each (reported separately, not solver-decided)." % len(fns),
        "queries": queries,
        "solver_s": round(solver_s, 2),
    }
    return "model_checking", cov, ["the S instruction model (validated against the real VM in ./check C02)", "argument expressions are side-effect free"]


def misuse_shapes(n, nd):
    """call shapes that must be rejected: (description, argument list as source text)"""
    first_default = n - nd
    names = ["p%d" % p for p in range(n)]
    vals = ["a%d" % p for p in range(n)]
    out = []
    full_named = ["%s = %s" % (names[p], vals[p]) for p in range(n)]
    out.append(("unknown name", ", ".join(full_named + ["zz = a0"])))
    out.append(("named twice", ", ".join(full_named + [full_named[-1]])))
    out.append(("positional and named for the same parameter", ", ".join([vals[0]] + full_named)))
    if n >= 2:
        out.append(("positional after named", ", ".join([full_named[0], vals[1]] + full_named[2:])))
        out.append(("positional and named for the same parameter (last)", ", ".join(vals[:n] + [full_named[n - 1]])))
    if first_default > 0:
        miss = [full_named[p] for p in range(n) if p != 0]
        out.append(("required parameter missing", ", ".join(miss)))
    out.append(("too many positional", ", ".join(vals + ["a0"])))
    return out


def misuse_family(outcome, rdir):
    """the diagnostics half of the property.  There is no value dimension here: the call shapes are ENUMERATED and the verdict is the
    real checker's (this part is not solver-decided; it is reported separately in the evidence)."""
    n_cases = n_ok = 0
    samples = []
    for kind in ("free", "member", "struct", "variant"):
        for n, nd in ((2, 0), (2, 1), (3, 2), (3, 3)):
            for what, args in misuse_shapes(n, nd):
                src = PRELUDE + decl(kind, n, nd, 0)
                if kind == "free":
                    c = "callee_0(%s)" % args
                elif kind == "member":
                    c = "Holder0(0).m(%s)" % args
                elif kind == "struct":
                    c = "Rec0(%s)" % args
                else:
                    c = "Enm0.Vr(%s)" % args
                src += "fn vf_0(%s) -> int {\n  let r = %s\n  0\n}\n" % (", ".join("a%d: int" % p for p in range(n)), c)
                ok, text = bytecode.check_source(src)
                n_cases += 1
                entry = {"callee": kind, "arity": n, "defaults": nd, "misuse": what, "call": c, "verdict": "rejected" if not ok else "ACCEPTED"}
                if ok:
                    key = "misuse:%s:%s" % (kind, what.replace(" ", "_"))
                    if outcome.findings.lookup("C18", key) is not None:
                        outcome.violation(key, what, None)
                    else:
                        outcome.violation(key, "a call with %s (%s) is accepted without a diagnostic" % (what, c), write(rdir, key, src, "accepted: " + what))
                elif "checker crashed" in text or "panicked" in text:
                    key = "misuse:%s:%s:crash" % (kind, what.replace(" ", "_"))
                    outcome.violation(key, "the checker crashes on a call with %s (%s)" % (what, c), write(rdir, key, src, text[-300:]))
                else:
                    n_ok += 1
                samples.append(entry)
    return n_cases, n_ok, samples


def panic_line(text):
    lines = text.splitlines()
    for i, ln in enumerate(lines):
        if "panicked at" in ln:
            return (ln + " " + (lines[i + 1] if i + 1 < len(lines) else "")).strip()[:220]
    return text[-160:].replace("\n", " ")


def positional_compiles(kind, n, nd):
    """does the fully positional call of the same declaration compile?"""
    src = PRELUDE + decl(kind, n, nd, 0) + "fn vf_0(%s) -> array<int> {\n  %s\n}\nvf_0(%s)\n" % (
        ", ".join("a%d: int" % p for p in range(n)), call(kind, n, 0, n, (), ["a%d" % p for p in range(n)]), ", ".join("1" for _ in range(n)))
    try:
        bytecode.compile_source(src)
        return True
    except bytecode.CompileError:
        return False


def write(rdir, key, src, note):
    os.makedirs(rdir, exist_ok=True)
    path = os.path.join(rdir, key.replace(":", "_") + ".abra")
    open(path, "w").write("// C18 %s\n// %s\n%s" % (key, note, src))
    return path
