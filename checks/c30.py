"""C30: literals denote exactly the values they spell (PARTIAL).
Engine M2: the MIR of Lexer::handle_num (+ current_char, peek_char, emit_with_skipped, TokenKind::nchars) over symbolic characters:
the number token's kind, text (underscores removed), span and the new lexer position against a fold specification.
Engine K: scan_for_unescaped_delim (string-literal delimiter scan)."""
import os
import re
import sys
import time

sys.path.insert(0, os.path.join(os.path.dirname(os.path.abspath(__file__)), "..", "mir"))
import z3  # noqa: E402
import lexnum  # noqa: E402
import parselit  # noqa: E402
import sched  # noqa: E402
from mirvm import Unknown  # noqa: E402
from kcheck import k_check
from vcommon import VERIF, tier

REPLAY = r'''
// Native replay of a number-lexing counterexample found by engine M2 (C30): %(desc)s
#[test]
fn %(name)s() {
    let chars: Vec<char> = vec![%(chars)s];
    let mut lx = Lexer { chars, index: %(index)d, tokens: Vec::new() };
    lx.handle_num();
    let shown: Vec<(String, usize, usize)> = lx.tokens.iter().map(|t| (match &t.kind {
        TokenKind::IntLit(s) => format!("int:{}", s),
        TokenKind::FloatLit(s) => format!("float:{}", s),
        _ => "other".to_string(),
    }, t.span.lo, t.span.hi)).collect();
    println!("tokens {:?} index {}", shown, lx.index);
    assert!(shown == vec![(%(want)s.to_string(), %(lo)d, %(hi)d)], "token / span");
    assert!(lx.index == %(hi)d, "lexer position after the literal");
}
'''


def concrete_spec(chars):
    """the same fold as lexnum.spec, on concrete characters"""
    phase, text, consumed, is_float = 0, "", 0, False
    for c in chars:
        if phase == 2:
            break
        if c.isascii() and c.isdigit():
            text += c
            consumed += 1
        elif c == "_":
            consumed += 1
        elif c == "." and phase == 0:
            text += c
            consumed += 1
            is_float = True
            phase = 1
        else:
            phase = 2
    return is_float, text, consumed


def replay_lex(key, prefix, vals):
    from kani_runner import KaniSession
    chars = list(prefix) + [chr(v) for v in vals]
    is_float, text, consumed = concrete_spec(chars[len(prefix):])
    lit = ", ".join("'\\u{%x}'" % ord(c) for c in chars)
    name = "m2_replay_c30_" + re.sub(r"\W+", "_", key)
    code = REPLAY % {"desc": key, "name": name, "chars": lit, "index": len(prefix), "lo": len(prefix), "hi": len(prefix) + consumed,
                     "want": '"%s:%s"' % ("float" if is_float else "int", text)}
    sess = KaniSession("C30_m2")
    res, _log = sess.run_playback("lexer_playback.rs", [("assertion", key, name, code)], release=False, test_filter=name)
    rdir = os.path.join(VERIF, "replays", "C30")
    os.makedirs(rdir, exist_ok=True)
    path = os.path.join(rdir, name + ".rs")
    open(path, "w").write("// characters: %r\n// native result: %s\n%s" % ("".join(chars), res, code))
    st = res.get(name)
    return (st == "FAILED") if st in ("FAILED", "ok") else None, path, "native test %s" % st


def replay_literal(key, lit, value):
    """program-level replay on the real pipeline: println(<literal>) must print the value spelled, or be rejected when out of range"""
    sys.path.insert(0, os.path.join(VERIF, "symex"))
    import bytecode
    if os.environ.get("ABRA_VERIF_SCRATCH"):
        os.makedirs(os.environ["ABRA_VERIF_SCRATCH"], exist_ok=True)
    src = "println(%s)\n" % lit
    in_range = -2 ** 63 <= value <= 2 ** 63 - 1
    try:
        bytecode.compile_source(src)
        accepted = True
    except bytecode.CompileError:
        accepted = False
    got = None
    if accepted:
        got = bytecode.run_source(src)
    rdir = os.path.join(VERIF, "replays", "C30")
    os.makedirs(rdir, exist_ok=True)
    path = os.path.join(rdir, re.sub(r"\W+", "_", key) + ".abra")
    open(path, "w").write("// expected: %s\n// real compiler %s; real VM: %s\n%s" % (
        ("prints %d" % value) if in_range else "rejected with an out-of-range diagnostic", "accepted the program" if accepted else "rejected the program", got, src))
    if in_range:
        wrong = (not accepted) or got.get("output", "").strip() != str(value)
    else:
        wrong = accepted
    return wrong, path, "accepted=%s output=%r" % (accepted, None if got is None else got.get("output"))


def parse_literals(outcome, cov, thorough):
    mir, _ = sched.dump_mir()
    P = parselit.ParseLit(mir)
    lens = list(range(1, 22)) if thorough else [1, 2, 18, 19, 20]
    n_obl = n_ok = paths = 0
    seen_ok = seen_err = False
    calls = set()
    reported = set()
    for form in ("int", "neg_int", "float", "neg_float"):
        for n in (lens if form.endswith("int") else [1, 3]):
            ds, text, ntok, res = P.run(form, n)
            paths += len(res)
            calls |= set((c[0], c[1]) for c in P.parse_calls)
            V = parselit.digits_value(ds)
            if form.startswith("neg"):
                V = -V
            inr = parselit.in_range(V, -2 ** 63, 2 ** 63 - 1)
            for st, ret, idx in res:
                checks = []
                if not isinstance(ret, parselit.Enum) or ret.ty != "Result":
                    raise Unknown("parse_expr_term returned %r" % (ret,))
                if ret.disc == 0:
                    seen_ok = True
                    kind = ret.fields[0][0].f[0]
                    checks.append(("tokens_consumed", idx != z3.BitVecVal(ntok, 64)))
                    if form.endswith("int"):
                        if kind.disc != P.ek["Int"]:
                            checks.append(("node_kind", z3.BoolVal(True)))
                        else:
                            checks.append(("accepted_out_of_range", z3.Not(inr)))
                            checks.append(("value", z3.And(inr, kind.fields[kind.disc][0] != z3.Extract(63, 0, V))))
                    else:
                        want = ([lexnum.ch("-")] if form.startswith("neg") else []) + text
                        if kind.disc != P.ek["Float"] or not isinstance(kind.fields[kind.disc][0], parselit.QueueV):
                            checks.append(("node_kind", z3.BoolVal(True)))
                        else:
                            got = kind.fields[kind.disc][0].items
                            checks.append(("float_text", z3.BoolVal(True) if len(got) != len(want) else z3.Or(*[a != b for a, b in zip(got, want)])))
                else:
                    seen_err = True
                    checks.append(("rejected_in_range", inr if form.endswith("int") else z3.BoolVal(True)))
                for cname, bad in checks:
                    n_obl += 1
                    if not P.m.sat(st.pc, bad):
                        n_ok += 1
                        continue
                    s = z3.Solver()
                    s.add(*st.pc)
                    s.add(bad)
                    s.check()
                    mdl = s.model()
                    digits = "".join(chr(mdl.eval(d, model_completion=True).as_long()) for d in ds)
                    lit = ("-" if form.startswith("neg") else "") + digits + (".0" if form.endswith("float") else "")
                    key = "parselit:%s:%s" % (form, cname)
                    if key in reported:
                        continue
                    reported.add(key)
                    desc = "literal %s: %s in the parser's literal arm" % (lit, cname)
                    if outcome.findings.lookup("C30", key) is not None:
                        outcome.violation(key, desc, None)
                        continue
                    if form.endswith("int"):
                        wrong, path, note = replay_literal(key, lit, int(lit))
                        if wrong:
                            outcome.violation(key, desc + " [replayed through the real compiler and VM: %s]" % note, path)
                        else:
                            outcome.inconc("literal obligation violated in the MIR model (%s) but the real pipeline behaves correctly (%s, %s)" % (desc, note, path))
                    else:
                        outcome.inconc("float literal text obligation violated in the MIR model (%s); no native replay for float text" % desc)
            for name, st, bad in P.m.obligations:
                n_obl += 1
                if st is not None:
                    outcome.violation("parselit:%s" % re.sub(r"\W+", "_", name)[:40], name, None)
                else:
                    n_ok += 1
            P.m.obligations = []
    if not (seen_ok and seen_err):
        outcome.inconc("literal arms: witness 'both an accepted and a rejected literal' not satisfied")
    cov["queries"] = cov.get("queries", 0) + P.m.queries
    cov["solver_s"] = round(cov.get("solver_s", 0) + P.m.solver_s, 2)
    cov.update({"parser_obligations": n_obl, "parser_refuted": n_ok, "parser_paths": paths, "parser_digit_counts": lens,
                "parser_std_parse_calls_seen": sorted("%s%s" % (t, " on '-'+text" if neg else "") for t, neg in calls),
                "parser_library_summaries": sorted(P.m.used_summaries), "parser_queries": P.m.queries, "parser_solver_s": round(P.m.solver_s, 2)})


def run(outcome, harness_map):
    thorough = tier() == "thorough"
    cov = {}
    n_obl = n_ok = paths = 0
    reported = set()
    witnesses = {"int_with_separator": False, "float_with_separator_in_fraction": False, "literal_ends_input": False, "followed_by_other": False}
    try:
        mir, dump_s = sched.dump_mir()
        maxk = 6 if thorough else 5
        plan = [("", k) for k in range(1, maxk + 1)] + [("ab", 3), ("x = ", 4)]
        queries = 0
        solver_s = 0.0
        summaries = set()
        stmts = 0
        for prefix, k in plan:
            L = lexnum.LexNum(mir)
            cs, res = L.run(prefix, k)
            is_float, n_out, out, consumed = lexnum.spec(cs)
            base = len(prefix)
            paths += len(res)
            for st, kind, text, lo, hi, idx, ntok in res:
                checks = []
                if ntok != 1 or kind not in ("IntLit", "FloatLit"):
                    checks.append(("one_number_token", z3.BoolVal(True)))
                else:
                    checks.append(("kind", is_float != z3.BoolVal(kind == "FloatLit")))
                    bad_text = [n_out != z3.BitVecVal(len(text), 8)] + [text[j] != out[j] for j in range(min(len(text), k + 1))]
                    checks.append(("text", z3.Or(*bad_text)))
                    want_hi = z3.BitVecVal(base, 64) + z3.ZeroExt(56, consumed)
                    checks.append(("span", z3.Or(lo != z3.BitVecVal(base, 64), hi != want_hi)))
                    checks.append(("position", idx != want_hi))
                for cname, bad in checks:
                    n_obl += 1
                    if not L.m.sat(st.pc, bad):
                        n_ok += 1
                        continue
                    s = z3.Solver()
                    s.add(*st.pc)
                    s.add(bad)
                    s.check()
                    mdl = s.model()
                    vals = [mdl.eval(c, model_completion=True).as_long() for c in cs]
                    key = "lexnum:%s" % cname
                    if key in reported:
                        continue
                    reported.add(key)
                    shown = prefix + "".join(chr(v) for v in vals)
                    if outcome.findings.lookup("C30", key) is not None:
                        outcome.violation(key, "number token %s wrong for %r" % (cname, shown), None)
                        continue
                    rep, path, note = replay_lex(key, prefix, vals)
                    desc = "lexing the number at offset %d of %r: wrong %s (model gives kind %s, text %s)" % (base, shown, cname, kind, text)
                    if rep:
                        outcome.violation(key, desc + " [replayed on the real lexer: %s]" % note, path)
                    else:
                        outcome.inconc("number-lexing obligation violated in the MIR model (%s) but the native replay %s (%s)" % (desc, note, path))
                # witnesses
                if k >= 4:
                    und = lambda c: c == lexnum.ch("_")  # noqa: E731
                    dig = lambda c: z3.And(z3.UGE(c, lexnum.ch("0")), z3.ULE(c, lexnum.ch("9")))  # noqa: E731
                    if kind == "IntLit" and not witnesses["int_with_separator"] and L.m.sat(st.pc, z3.And(und(cs[1]), dig(cs[2]))):
                        witnesses["int_with_separator"] = True
                    if kind == "FloatLit" and not witnesses["float_with_separator_in_fraction"] and L.m.sat(st.pc, z3.And(cs[1] == lexnum.ch("."), und(cs[2]), dig(cs[3]))):
                        witnesses["float_with_separator_in_fraction"] = True
                    if text is not None and len(text) == k:
                        witnesses["literal_ends_input"] = True
                    if text is not None and len(text) <= k - 2:
                        witnesses["followed_by_other"] = True
            for name, st, bad in L.m.obligations:
                n_obl += 1
                if st is not None:
                    outcome.violation("lexnum:%s" % re.sub(r"\W+", "_", name)[:40], name + " (possible Rust panic while lexing a number)", None)
                else:
                    n_ok += 1
            queries += L.m.queries
            solver_s += L.m.solver_s
            summaries |= L.m.used_summaries
            stmts += L.m.stmts
        for w, ok in witnesses.items():
            if not ok:
                outcome.inconc("number lexing: witness '%s' not satisfied" % w)
        cov["queries"] = queries
        cov.update({"number_plans": ["%r+%d symbolic" % p for p in plan], "paths": paths, "mir_statements_executed": stmts, "mir_dump_s": round(dump_s, 1),
                    "library_summaries": sorted(summaries), "queries": queries, "solver_s": round(solver_s, 2), "witnesses": witnesses})
    except Unknown as e:
        outcome.inconc("engine M2 could not interpret Lexer::handle_num: %s" % e)
    try:
        parse_literals(outcome, cov, thorough)
    except Unknown as e:
        outcome.inconc("engine M2 could not interpret the literal arms of Parser::parse_expr_term: %s" % e)
    n_obl += cov.get("parser_obligations", 0)
    n_ok += cov.get("parser_refuted", 0)
    items = [{"module": m, "name": n, "quick": True} for n, m in sorted(harness_map.items()) if re.match(r"c30_scan", n)]
    frag, _ = k_check("C30", outcome, items, quick_timeout=600, thorough_timeout=1200, jobs=2)
    cov["delimiter_scan_kani"] = frag
    cov["evaluations"] = n_obl + frag["evaluations"]
    cov["distinct_nontrivial"] = n_ok + frag["distinct_nontrivial"]
    cov["queries"] = cov.get("queries", 0) + frag["vccs_generated"]
    cov["solver_s"] = round(cov.get("solver_s", 0) + frag["solver_s"], 2)
    cov["functions_encoded"] = ["parse::lexer::Lexer::{handle_num, current_char, peek_char, emit_with_skipped} and TokenKind::nchars (MIR, engine M2)",
                                "parse::lexer::scan_for_unescaped_delim (Kani)"]
    cov["bounds"] = ("numbers: a concrete prefix ('', 'ab', 'x = ') followed by 1..%d symbolic characters (every Unicode scalar value; the first one a digit, "
                     "which is the call site's guard); obligation per MIR path: exactly one token; IntLit / FloatLit as the spelling has a '.' after the "
                     "first digit run; text = the digits (and the '.') in order with every '_' removed; span = [start, start + characters consumed); "
                     "lexer position = end of the literal; no Rust panic (index, overflow). Because the text is the exact digit sequence, its value "
                     "under str::parse::<i64/f64> (std, trusted: exact / correctly rounded) is the value spelled. Outside: literals longer than the "
                     "bound. Parser: the IntLit / FloatLit / Minus-literal arms of parse_expr_term on a token of n symbolic digits (n in the evidence; "
                     "floats: n digits '.' one digit): Ok(Int(v)) iff the spelled (possibly negated) value is in i64 range and then v is that value, "
                     "a diagnostic iff out of range, the Float node carries the exact (negated) text, tokens consumed. Outside: literal patterns "
                     "(parse_match_pattern), the translator's own parse of the float text, newline tokens before the literal, "
                     "escape processing and indentation stripping of string literals. Strings: 4-character bodies over {backslash, quote, letter, "
                     "newline} for the delimiter scan." % (6 if thorough else 5))
    cov["rule"] = ("numbers: one evaluation = one (path, obligation) pair refuted by z3 over all characters; delimiter scan: one Kani harness; "
                   "non-trivial = refuted / SUCCESS with witnesses")
    cov["samples"] = frag["samples"]
    return "model_checking", cov, ["library summaries listed in the evidence (String::new/push, Vec push/index/get, char::is_ascii_digit, chars().count())",
                                   "str::parse::<i64> / <f64> of std map a digit string to the integer / nearest binary64 it spells",
                                   "nightly MIR == stable semantics"]
