"""C10: results do not depend on how the embedder slices execution.
Scheduler layer: engine M2 -- run(b1); run(b2) vs run(b1+b2) on the real MIR of vm::Runtime with shared symbolic scripts (z3 on every joint path).
Thread layer: Kani -- VmGreenThread::run_n_steps(n) is n x (maybe_gc; step); resumable string instructions keep their progress in the thread (C17)."""
import re
import time

import schedlib
from mirvm import Unknown
from kcheck import k_check
from vcommon import tier


def run(outcome, harness_map):
    t0 = time.time()
    thorough = tier() == "thorough"
    bound = 4 if thorough else 3
    cov = {}
    try:
        ctx = schedlib.Ctx()
        pairs = 0
        plan = [(1, 4, True), (2, 3, True), (2, 4, False), (3, 2, True)] if thorough else [(1, 3, True), (2, 2, True), (2, 3, False)]
        for n, b, si in plan:
            pairs += schedlib.check_split(ctx, n, b, si)
        cov = schedlib.finish("C10", ctx, outcome, pairs,
                              "scheduler layer: 1 or 2 queued threads (each initially runnable, failed or waiting for the host: symbolic; with 2 threads and the larger budget bound all runnable) plus at most one spawned thread, unbounded symbolic scripts of outcomes {continue, done, "
                              "error, pending host call, spawn}; budgets b1, b2 symbolic in 0..%d: run_n_steps(b1) followed (while the status is OutOfSteps) "
                              "by run_n_steps(b2) against run_n_steps(b1+b2) from the same state and scripts. For every jointly satisfiable pair of paths "
                              "(z3): the same threads are stepped in the same order; same length, status and steps consumed unless the sliced run stopped at "
                              "the cut on a status the embedder acts on (pending host call / error), in which case the unsliced run only goes further. "
                              "Outside: servicing delays of host calls (the value the host returns is the embedder's), FFI threads, programs as such "
                              "(program-level slicing is not explored; it follows from this layer + the thread layer + C17 by composition)." % bound, t0)
        for w in ("both slices used fully", "a spawn happened", "main finished in the second slice", "first slice ended on a host call"):
            if not ctx.witness.get(w):
                outcome.inconc("scheduler model: reachability witness '%s' not satisfied (vacuous?)" % w)
    except Unknown as e:
        outcome.inconc("engine M2 could not interpret the scheduler's MIR: %s" % e)
        cov = {"evaluations": 0, "distinct_nontrivial": 0, "functions_encoded": schedlib.FUNCTIONS}
    items = [{"module": m, "name": n, "quick": True} for n, m in sorted(harness_map.items()) if re.match(r"c10_", n)]
    frag, _ = k_check("C10", outcome, items, quick_timeout=600, thorough_timeout=1200, jobs=4)
    cov["thread_layer_kani"] = frag
    cov["evaluations"] = cov.get("evaluations", 0) + frag["evaluations"]
    cov["distinct_nontrivial"] = cov.get("distinct_nontrivial", 0) + frag["distinct_nontrivial"]
    cov["queries"] = cov.get("queries", 0) + frag["vccs_generated"]
    cov["solver_s"] = round(cov.get("solver_s", 0) + frag["solver_s"], 2)
    cov["functions_encoded"] = cov.get("functions_encoded", []) + ["vm::VmGreenThread::run_n_steps under Kani (step and maybe_gc stubbed by counters)"]
    cov["rule"] = ("scheduler layer: one evaluation = one obligation on one jointly satisfiable pair of symbolic paths (sliced vs unsliced) of the real MIR; "
                   "thread layer: one Kani harness; non-trivial = refuted / SUCCESS with witnesses")
    cov["samples"] = [{"witnesses": cov.get("witnesses")}] + frag["samples"]
    return "model_checking", cov, ["the library summaries listed in the evidence (VecDeque, Option, Iterator, mpsc::Receiver::try_recv as a FIFO)",
                                   "the scripted step stands for VmGreenThread::step() (VmGreenThread::run_n_steps itself is executed from its MIR, maybe_gc is a no-op)", "composition with the thread layer and C17 is an argument",
                                   "nightly MIR == stable semantics for these functions"]
