"""C27: core/map and core/set behave like a dictionary / set -- engine S over the compiled map.abra, set.abra."""
import itertools
import os
import sys
import time

sys.path.insert(0, os.path.join(os.path.dirname(os.path.abspath(__file__)), "..", "symex"))
import z3  # noqa: E402
import api  # noqa: E402
import bytecode  # noqa: E402
from svm import I, InternalFault, Unsupported  # noqa: E402
from vcommon import VERIF, seed, tier  # noqa: E402

# op letters: I insert(k, v) | S m[k] = v | G try_get(k) | C contains(k) | R remove(k) | L len()
MAP_OPS = "ISGCRL"
SET_OPS = "ICRL"


KEY_TYPE = """type Key = { id: int }
implement Hash for Key {
    fn hash(k) = 7
}
implement Equal for Key {
    fn equal(a, b) = a.id == b.id
}
"""


def gen_function(name, ops, is_set, kmode="int"):
    """Abra function performing `ops` on a fresh map<int,int> (or set<int>) and returning all observations as array<int>.
    kmode 'ck': the keys are values of a user type whose Hash implementation is constant (every pair of distinct keys has the same full hash)."""
    params, body = [], []
    kt = "Key" if kmode == "ck" else "int"
    body.append("  let out: array<int> = []")
    body.append("  let m: set<%s> = set.new()" % kt if is_set else "  let m: map<%s, int> = map.new()" % kt)
    for i, op in enumerate(ops):
        k, v = "k%d" % i, "v%d" % i
        kp = k
        if kmode == "ck":
            k = "Key(%s)" % k
        if op == "I":
            params += [kp + ": int"] + ([] if is_set else [v + ": int"])
            body.append("  m.insert(%s)" % k if is_set else "  m.insert(%s, %s)" % (k, v))
        elif op == "S":
            params += [kp + ": int", v + ": int"]
            body.append("  m[%s] = %s" % (k, v))
        elif op == "G":
            params += [kp + ": int"]
            body.append("  let o%d = m.try_get(%s)" % (i, k))
            body.append("  if o%d.is_some() { out.push(1); out.push(o%d.unwrap()) } else { out.push(0); out.push(0) }" % (i, i))
        elif op == "C":
            params += [kp + ": int"]
            body.append("  if m.contains(%s) { out.push(1) } else { out.push(0) }" % k)
        elif op == "R":
            params += [kp + ": int"]
            body.append("  if m.remove(%s) { out.push(1) } else { out.push(0) }" % k)
        elif op == "L":
            body.append("  out.push(m.len())")
    body.append("  out.push(m.len())")
    body.append("  out")
    src = "fn %s(%s) -> array<int> {\n%s\n}\n" % (name, ", ".join(params), "\n".join(body))
    return src, len(params)


class Model:
    """dictionary with z3 key equality: entries (key, value, alive) in insertion order"""

    def __init__(self):
        self.entries = []

    def contains(self, k):
        return z3.Or(*[z3.And(a, ek == k) for ek, ev, a in self.entries]) if self.entries else z3.BoolVal(False)

    def get(self, k):
        t = I(0)
        for ek, ev, a in self.entries:
            t = z3.If(z3.And(a, ek == k), ev, t)
        return t

    def insert(self, k, v):
        self.entries = [(ek, ev, z3.And(a, ek != k)) for ek, ev, a in self.entries] + [(k, v, z3.BoolVal(True))]

    def remove(self, k):
        r = self.contains(k)
        self.entries = [(ek, ev, z3.And(a, ek != k)) for ek, ev, a in self.entries]
        return r

    def length(self):
        t = I(0)
        for ek, ev, a in self.entries:
            t = t + z3.If(a, I(1), I(0))
        return t


def expected(ops, args, is_set):
    """list of z3 int terms the function must return"""
    m = Model()
    it = iter(args)
    out = []
    b2i = lambda b: z3.If(b, I(1), I(0))  # noqa: E731
    for op in ops:
        if op == "I":
            k = next(it)
            v = I(0) if is_set else next(it)
            m.insert(k, v)
        elif op == "S":
            k, v = next(it), next(it)
            m.insert(k, v)
        elif op == "G":
            k = next(it)
            c = m.contains(k)
            out += [b2i(c), z3.If(c, m.get(k), I(0))]
        elif op == "C":
            out.append(b2i(m.contains(next(it))))
        elif op == "R":
            out.append(b2i(m.remove(next(it))))
        elif op == "L":
            out.append(m.length())
    out.append(m.length())
    return out


def sequences(t, rng):
    quick_map = ["IG", "IIG", "IRG", "ISG", "IRI", "IIR", "IRC", "IIL", "RG", "IIIG"]
    quick_set = ["IC", "IIR", "IRC", "IIL"]
    if t != "thorough":
        return [(s, False) for s in quick_map] + [(s, True) for s in quick_set]
    seqs = []
    for n in (1, 2, 3):
        for tup in itertools.product(MAP_OPS, repeat=n):
            s = "".join(tup)
            if "I" in s or "S" in s or n == 1:
                seqs.append((s, False))
    for n in (2, 3):
        for tup in itertools.product(SET_OPS, repeat=n):
            s = "".join(tup)
            if "I" in s:
                seqs.append((s, True))
    # (resize and slot reuse are covered by the concrete-key scenarios in run(): fully symbolic sequences of that length exceed the path bound)
    return seqs


def run(outcome, _harnesses):
    import random
    rng = random.Random(seed())
    t = tier()
    seqs = sequences(t, rng)
    fns = []
    src = "use core/map\nuse core/set\n" + KEY_TYPE
    calls = []
    # keys with colliding hashes: a user key type with a constant Hash implementation, ids symbolic
    ck_map = ["IIRG", "IIRC", "IRIG", "IIG", "ISG"] + (["IIIRG", "IIRRC", "IIRIG", "IIRL"] if t == "thorough" else [])
    ck_set = ["IIRC"] + (["IIIRC", "IRIC"] if t == "thorough" else [])
    seqs = [(o, st_, "int") for o, st_ in seqs] + [(o, False, "ck") for o in ck_map] + [(o, True, "ck") for o in ck_set]
    for idx, (ops, is_set, kmode) in enumerate(seqs):
        name = "vf_%s%s_%d_%s" % ("s" if is_set else "m", "" if kmode == "int" else "_ck", idx, ops)
        f, nparams = gen_function(name, ops, is_set, kmode)
        src += f
        calls.append("%s(%s)" % (name, ", ".join(str(i + 1) for i in range(nparams))))
        fns.append((name, ops, is_set, nparams))
    # collision-chain / slot-reuse scenarios: the KEYS are concrete (0, 4, 8 share a bucket of the initial 4-bucket table), the values
    # and the final probe key are symbolic: insert 0, 4, 1; remove 1; insert 8 (reuses the freed slot inside a non-empty bucket);
    # insert 2; then look everything up
    chains = []
    for cname, ops, is_set, pattern in (
            ("chain_map", "IIIRIIGGGGG", False, [0, "v", 4, "v", 1, "v", 1, 8, "v", 2, "v", 0, 4, 8, 2, "p"]),
            ("chain_map_remove_head", "IIIRIIGGGG", False, [0, "v", 4, "v", 8, "v", 8, 12, "v", 1, "v", 0, 4, 12, "p"]),
            ("chain_set", "IIIRIICCCC", True, [0, 4, 1, 1, 8, 2, 0, 4, 8, "p"]),
            # six inserts cross the resize of the initial 4-bucket table; then a remove, a re-insert and look-ups
            ("resize_map", "IIIIIIRIGGGG", False, [0, "v", 1, "v", 2, "v", 3, "v", 4, "v", 5, "v", 2, 9, "v", 0, 5, 9, "p"]),
            ("resize_set", "IIIIIIRICCC", True, [0, 1, 2, 3, 4, 5, 4, 12, 5, 12, "p"])):
        inner = "vf_%s_inner" % cname
        f, nparams = gen_function(inner, ops, is_set)
        assert nparams == len(pattern), (cname, nparams, len(pattern))
        src += f
        syms = ["s%d" % k for k, x in enumerate(pattern) if isinstance(x, str)]
        args = []
        k = 0
        for x in pattern:
            if isinstance(x, str):
                args.append(syms[k])
                k += 1
            else:
                args.append(str(x))
        src += "fn vf_%s(%s) -> array<int> {\n  %s(%s)\n}\n" % (cname, ", ".join("%s: int" % q for q in syms), inner, ", ".join(args))
        calls.append("vf_%s(%s)" % (cname, ", ".join("1" for _ in syms)))
        chains.append(("vf_" + cname, ops, is_set, len(syms), pattern))
    src += "\n".join(calls) + "\n"
    prog = bytecode.compile_source(src)
    samples = []
    n_obl = n_hold = 0
    queries = 0
    solver_s = 0.0
    rdir = os.path.join(VERIF, "replays", "C27")
    long_domain = [-(1 << 63), -1, 0, 1, 4, 5, 8, (1 << 63) - 1]
    for name, ops, is_set, nparams, pattern in [f + (None,) for f in fns] + chains:
        ck = "_ck_" in name
        entry = {"sequence": ops, "container": ("set<%s>" if is_set else "map<%s,int>") % ("Key (constant hash)" if ck else "int")}
        if pattern is not None:
            entry["keys"] = "concrete %s, values and probe symbolic" % [x for x in pattern if not isinstance(x, str)]
        long_seq = len(ops) >= 4 and pattern is None and not ck
        try:
            def build(i):
                args = [i.make("int") for _ in range(nparams)]
                if long_seq:
                    # keys of the long resize sequences range over a small domain (still symbolic): bounds the bucket-index forks
                    for a in args:
                        i.constraints.append(z3.Or(*[a.v == I(d) for d in long_domain]))
                return args
            m, done, inp = api.call(prog, name, build, max_steps=60000, max_paths=6000)
        except InternalFault as e:
            key = "%s:internal_fault" % ops
            outcome.violation(key, "internal fault in %s: %s" % (name, e), write_src(rdir, key, src, str(e)))
            continue
        except Unsupported as e:
            outcome.inconc("%s: outside the S model: %s" % (name, e))
            continue
        queries += m.queries
        solver_s += m.solver_s
        if m.bound_hit:
            outcome.inconc("%s: path/step bound reached (%d paths)" % (name, len(done)))
        if pattern is None:
            exp = expected(ops, inp.leaves, is_set)
        else:
            lv = iter(inp.leaves)
            exp = expected(ops, [next(lv) if isinstance(x, str) else I(x) for x in pattern], is_set)
        entry["paths"] = len(done)
        verdict = "holds"
        for st in done:
            if st.status in ("dead", "bound"):
                continue  # a path cut off by the step / path bound is reported through bound_hit, it is not a verdict
            n_obl += 1
            cond = z3.And(*st.cond) if st.cond else z3.BoolVal(True)
            s = z3.Solver()
            s.set("timeout", 120000)
            s.add(cond)
            if st.status == "done":
                rv = api.result_value(st)
                elems = st.heap[rv.v][1] if rv is not None and rv.tag == "Array" else None
                if elems is None or len(elems) != len(exp):
                    s.add(z3.BoolVal(True))
                    mismatch = z3.BoolVal(True)
                else:
                    mismatch = z3.Or(*[e.v != x for e, x in zip(elems, exp)])
                s.add(mismatch)
                what = "observations differ from the dictionary model"
            else:
                what = "stops with %s although every operation is defined" % st.status
            t1 = time.time()
            r = s.check()
            solver_s += time.time() - t1
            queries += 1
            if r == z3.unsat:
                n_hold += 1
                continue
            if r == z3.unknown:
                outcome.inconc("%s: solver unknown" % name)
                continue
            verdict = "violated"
            mdl = s.model()
            vals = [mdl.eval(v, model_completion=True).as_signed_long() for v in inp.leaves]
            key = "%s:%s" % (ops + ("_set" if is_set else "") + ("_collide" if ck else ""), "error_" + st.status if st.status != "done" else "mismatch")
            entry["counterexample"] = vals
            if outcome.findings.lookup("C27", key) is not None:
                outcome.violation(key, what, None)
            else:
                rname, rvals = name, vals
                if pattern is not None:
                    # replay through the inner function with the concrete keys filled in
                    itv = iter(vals)
                    rname, rvals = name + "_inner", [next(itv) if isinstance(x, str) else x for x in pattern]
                ok, path, note = replay(rdir, key, src, rname, ops, is_set, rvals)
                entry["replay"] = note
                if ok:
                    outcome.violation(key, "%s: %s with arguments %s [real VM: %s]" % (name, what, vals, note), path)
                else:
                    outcome.inconc("%s: counterexample %s did not reproduce on the real VM (%s)" % (name, vals, note))
            break
        entry["verdict"] = verdict
        samples.append(entry)
    cov = {
        "evaluations": n_obl,
        "distinct_nontrivial": n_hold,
        "rule": "one evaluation = one bytecode path of one operation sequence; for each path z3 must refute `path condition and observations "
                "!= dictionary model` (or the path condition itself when the path ends in a runtime error); keys and values are symbolic "
                "64-bit integers, so MIN, colliding bucket indices and duplicate keys are all in the space; non-trivial = verdict unsat",
        "samples": samples[:60],
        "sequences": len(fns),
        "functions_encoded": ["modules/core/map.abra: new, insert, try_get, contains, remove, len, resize, index_set (compiled bytecode)",
                              "modules/core/set.abra: new, insert, contains, remove, len", "prelude Hash/Equal for int, user Hash/Equal implementations of the template key type, array.filled, option.is_some/unwrap"],
        "bounds": "operation sequences: quick = %d curated sequences of length <= 4; thorough = all sequences of length <= 3 over {insert, index-set, "
                  "try_get, contains, remove, len} plus three resize/slot-reuse sequences of length 5..9 whose keys range over an 8-value symbolic "
                  "domain; keys: int, and a user key type whose Hash is constant (all distinct keys share one full hash; ids symbolic) for %d sequences. Outside: string and tuple keys, tables beyond 8 buckets, get() of a missing key (documented panic)." % (len(fns), len(ck_map) + len(ck_set)),
        "queries": queries,
        "solver_s": round(solver_s, 2),
        "programs": 1,
    }
    return "model_checking", cov, ["the S instruction model agrees with the real VM (K arm harnesses; ./check C02 differential run)",
                                   "the dictionary model in checks/c27.py is the reference semantics"]


def write_src(rdir, key, src, note):
    os.makedirs(rdir, exist_ok=True)
    path = os.path.join(rdir, key.replace(":", "_") + ".abra")
    open(path, "w").write("// C27 %s\n// %s\n%s" % (key, note, src))
    return path


def int_lit(v):
    if v == -(1 << 63):
        return "(-9223372036854775807 - 1)"
    return "(%d)" % v if v < 0 else str(v)


def replay(rdir, key, src, name, ops, is_set, vals):
    """Run the sequence with the concrete arguments on the real VM and compare with a Python dict."""
    body = src[: src.rindex("}\n") + 2]
    call = "%s(%s)" % (name, ", ".join(int_lit(v) for v in vals))
    text = body + "println(%s)\n" % call
    res = bytecode.run_source(text)
    # python model
    d = {}
    it = iter(vals)
    out = []
    for op in ops:
        if op == "I":
            k = next(it)
            d[k] = 0 if is_set else next(it)
        elif op == "S":
            k = next(it)
            d[k] = next(it)
        elif op == "G":
            k = next(it)
            out += [1, d[k]] if k in d else [0, 0]
        elif op == "C":
            out.append(1 if next(it) in d else 0)
        elif op == "R":
            k = next(it)
            out.append(1 if k in d else 0)
            d.pop(k, None)
        elif op == "L":
            out.append(len(d))
    out.append(len(d))
    want = "[ " + ", ".join(str(x) for x in out) + " ]" if out else "[]"
    os.makedirs(rdir, exist_ok=True)
    path = os.path.join(rdir, key.replace(":", "_") + ".abra")
    open(path, "w").write("// C27 counterexample: %s\n// expected output %s\n// real VM: %s\n%s" % (call, want, res, text))
    got = res.get("output", "").strip()
    if res.get("status") != "done":
        return True, path, "real VM stopped with %s" % res.get("status")
    return got != want, path, "printed %s, dictionary model says %s" % (got, want)
