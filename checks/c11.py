"""C11: the runtime reports completion, errors and host calls truthfully.
Scheduler layer: engine M2 (MIR of vm::Runtime executed symbolically against scripted threads, z3).
Thread layer: Kani harnesses on the real step() arms Stop / HostFunc / Panic (engine K)."""
import re
import time

import schedlib
from mirvm import Unknown
from kcheck import k_check
from vcommon import tier


def run(outcome, harness_map):
    t0 = time.time()
    thorough = tier() == "thorough"
    bound = 6 if thorough else 4
    cov = {}
    try:
        ctx = schedlib.Ctx()
        paths = 0
        plan = [(1, 7, True, 2), (2, 6, True, 2), (3, 5, True, None), (3, 6, False, None)] if thorough else [(1, 4, True, 2), (2, 4, True, 2), (3, 3, True, None), (3, 4, False, None)]
        for n, b, si, second in plan:
            paths += schedlib.check_status(ctx, n, b, si, second)
        cov = schedlib.finish("C11", ctx, outcome, paths,
                              "scheduler layer: 1, 2 or 3 queued threads (main first), each initially runnable, failed or waiting for the host (symbolic), plus at most one thread spawned during the run; every thread's "
                              "behaviour is an unbounded script of symbolic outcomes {continue, done, error, pending host call, spawn} (one fresh 8-bit "
                              "variable per thread and step); one call of run_n_steps with a symbolic budget <= %d (3 threads: <= one less), followed for 1-2 threads by a second "
                              "call with budget <= 2 (completion stays reported, nothing runs after it). Obligations per path (z3): steps_consumed "
                              "= executed steps <= budget; Done iff main finished (in the same call, whatever other tasks do); MainThreadError iff main "
                              "failed, carrying main's error; PendingHostFunc iff some thread waits for the host; OutOfSteps before the budget is used "
                              "only if nothing can run; no finished / failed / waiting thread is ever stepped; Runtime::top() after Done is main's last "
                              "value and cannot panic. Outside: FFI threads (feature ffi), more than one spawn per run." % bound, t0)
        for w in ("a call after completion", "main done while another task is still alive", "main error reported", "budget exhausted at the bound", "a task's host call surfaced",
                  "a spawn happened", "top() evaluated after Done"):
            if not ctx.witness.get(w):
                outcome.inconc("scheduler model: reachability witness '%s' not satisfied (vacuous?)" % w)
    except Unknown as e:
        outcome.inconc("engine M2 could not interpret the scheduler's MIR: %s" % e)
        cov = {"evaluations": 0, "distinct_nontrivial": 0, "functions_encoded": schedlib.FUNCTIONS}
    items = [{"module": m, "name": n, "quick": True} for n, m in sorted(harness_map.items()) if re.match(r"c11_", n)]
    frag, _ = k_check("C11", outcome, items, quick_timeout=600, thorough_timeout=1200, jobs=4)
    cov["thread_layer_kani"] = frag
    cov["evaluations"] = cov.get("evaluations", 0) + frag["evaluations"]
    cov["distinct_nontrivial"] = cov.get("distinct_nontrivial", 0) + frag["distinct_nontrivial"]
    cov["queries"] = cov.get("queries", 0) + frag["vccs_generated"]
    cov["solver_s"] = round(cov.get("solver_s", 0) + frag["solver_s"], 2)
    cov["functions_encoded"] = cov.get("functions_encoded", []) + ["vm::VmGreenThread::step (arms Stop, HostFunc, Panic) under Kani", "VmGreenThread::{status, can_run, clear_pending_host_func}"]
    cov["rule"] = ("scheduler layer: one evaluation = one obligation on one symbolic path of the real MIR of Runtime::run_n_steps (z3 refutes its negation "
                   "for all scripts and budgets on that path); thread layer: one evaluation = one Kani harness; non-trivial = refuted / SUCCESS with witnesses")
    cov["samples"] = [{"witnesses": cov.get("witnesses")}] + frag["samples"]
    return "model_checking", cov, ["the library summaries listed in the evidence (VecDeque, Option, Iterator, mpsc::Receiver::try_recv as a FIFO)",
                                   "the scripted step stands for VmGreenThread::step() (VmGreenThread::run_n_steps itself is executed from its MIR, maybe_gc is a no-op); what one real step does is covered by the arm harnesses",
                                   "nightly MIR == stable semantics for these functions"]
