"""Shared machinery for C12 / C13 / C14: a bounded universe of scrutinee types, patterns and arm lists; pattern
semantics as z3 predicates over symbolic scrutinee values; the real checker (through the driver) and the compiled
match executed by engine S."""
import itertools
import os
import random
import re
import sys
import time

sys.path.insert(0, os.path.join(os.path.dirname(os.path.abspath(__file__)), "..", "symex"))
import z3  # noqa: E402
import api  # noqa: E402
import bytecode  # noqa: E402
from svm import I, InternalFault, Unsupported, Val  # noqa: E402

DECLS = """type Shape =
  | Dot
  | Circle(int)
  | Rect(bool, bool)
type Rec = {
  a: bool
  b: int
}
type Ev =
  | Tick(int, void)
  | Halt
"""

# ---------------------------------------------------------------- types
# 'bool' 'int' 'float' 'string' 'void' ('tuple',[t]) ('enum','Shape') ('struct','Rec') ('option',t)
ENUMS = {"Shape": [("Dot", []), ("Circle", ["int"]), ("Rect", ["bool", "bool"])], "Ev": [("Tick", ["int", "void"]), ("Halt", [])]}
STRUCTS = {"Rec": [("a", "bool"), ("b", "int")]}


def tname(t):
    if isinstance(t, str):
        return t
    if t[0] == "tuple":
        return "(" + ", ".join(tname(x) for x in t[1]) + ")"
    if t[0] in ("enum", "struct"):
        return t[1]
    if t[0] == "option":
        return "option<%s>" % tname(t[1])
    raise ValueError(t)


def variants(t):
    if t[0] == "enum":
        return ENUMS[t[1]]
    return [("some", [t[1]]), ("none", [])]


# ---------------------------------------------------------------- symbolic values by shape
def shapes(t):
    """all shapes of type t: ('leaf', kind) | ('tuple', [shapes]) | ('variant', tag, [payload shapes])"""
    if t in ("bool", "int", "float", "string", "void"):
        yield ("leaf", t)
    elif t[0] == "tuple":
        for combo in itertools.product(*[list(shapes(x)) for x in t[1]]):
            yield ("tuple", list(combo))
    elif t[0] == "struct":
        for combo in itertools.product(*[list(shapes(ft)) for _, ft in STRUCTS[t[1]]]):
            yield ("tuple", list(combo))
    else:
        for tag, (vn, fts) in enumerate(variants(t)):
            for combo in itertools.product(*[list(shapes(ft)) for ft in fts]):
                yield ("variant", tag, list(combo))


class SymValue:
    """a symbolic value of a given shape: mirrors the VM representation and exposes leaves for the oracle"""

    def __init__(self, shape, inp):
        self.shape = shape
        k = shape[0]
        if k == "leaf":
            kind = shape[1]
            if kind == "string":
                self.val = inp.make(("string", 1))
                self.term = inp.st.heap[self.val.v][1]
            elif kind == "void":
                self.val = inp.make("void")
                self.term = None
            else:
                self.val = inp.make(kind)
                self.term = self.val.v
            self.kids = []
        elif k == "tuple":
            self.kids = [SymValue(s, inp) for s in shape[1]]
            # void components are erased from tuples and structs (they occupy no field)
            self.val = Val("Struct", inp.st.alloc(("Struct", [c.val for c in self.kids if c.shape != ("leaf", "void")])))
        else:
            self.kids = [SymValue(s, inp) for s in shape[2]]
            live = [c for c in self.kids if c.shape != ("leaf", "void")]
            if len(self.kids) == 0:
                payload = inp.make("void")
            elif len(self.kids) == 1:
                payload = self.kids[0].val
            else:
                payload = Val("Struct", inp.st.alloc(("Struct", [c.val for c in live])))
            self.val = Val("Variant", inp.st.alloc(("Variant", shape[1], payload)))


# ---------------------------------------------------------------- patterns
# ('wild',) ('var', name) ('lit', text, value) ('tuple',[p]) ('variant', vname, [p]) ('struct', sname, [p]) ('or', p, q)
def pat_str(p):
    k = p[0]
    if k == "wild":
        return "_"
    if k == "var":
        return p[1]
    if k == "lit":
        return p[1]
    if k == "tuple":
        return "(" + ", ".join(pat_str(x) for x in p[1]) + ")"
    if k == "variant":
        return "." + p[1] + ("(" + ", ".join(pat_str(x) for x in p[2]) + ")" if p[2] else "")
    if k == "struct":
        return p[1] + "(" + ", ".join(pat_str(x) for x in p[2]) + ")"
    if k == "or":
        return pat_str(p[1]) + " | " + pat_str(p[2])
    raise ValueError(p)


def float_bits(text):
    import struct
    return struct.unpack("<Q", struct.pack("<d", float(text)))[0]


def matches(p, v, t):
    """z3 Bool: value v (SymValue of some shape of type t) matches pattern p"""
    k = p[0]
    if k in ("wild", "var"):
        return z3.BoolVal(True)
    if k == "or":
        return z3.Or(matches(p[1], v, t), matches(p[2], v, t))
    if k == "lit":
        if t == "bool":
            return v.term if p[2] else z3.Not(v.term)
        if t == "int":
            return v.term == I(p[2])
        if t == "float":
            return v.term == I(float_bits(p[1]))  # run-time float equality is bitwise (total order)
        if t == "string":
            from svm import BStr, str_eq
            return str_eq(v.term, BStr.lit(p[2].encode()))
        if t == "void":
            return z3.BoolVal(True)
    if k == "tuple" or k == "struct":
        tys = t[1] if t[0] == "tuple" else [ft for _, ft in STRUCTS[t[1]]]
        return z3.And(*[matches(q, c, ct) for q, c, ct in zip(p[1] if k == "tuple" else p[2], v.kids, tys)]) if tys else z3.BoolVal(True)
    if k == "variant":
        vs = variants(t)
        idx = [n for n, _ in vs].index(p[1])
        if v.shape[1] != idx:
            return z3.BoolVal(False)
        fts = vs[idx][1]
        return z3.And(*[matches(q, c, ct) for q, c, ct in zip(p[2], v.kids, fts)]) if fts else z3.BoolVal(True)
    raise ValueError((p, t))


def bindings(p, v, t, out):
    """collect (name, kind, term) for the variables bound when p matches v (or-patterns: left side if it matches)"""
    k = p[0]
    if k == "var":
        out.append((p[1], t, v.term))
    elif k == "or":
        l, r = [], []
        bindings(p[1], v, t, l)
        bindings(p[2], v, t, r)
        ml = matches(p[1], v, t)
        for (n, ty, a), (_n2, _t2, b) in zip(l, r):
            out.append((n, ty, z3.If(ml, a, b) if a is not None and b is not None else a))
    elif k == "tuple" or k == "struct":
        tys = t[1] if t[0] == "tuple" else [ft for _, ft in STRUCTS[t[1]]]
        for q, c, ct in zip(p[1] if k == "tuple" else p[2], v.kids, tys):
            bindings(q, c, ct, out)
    elif k == "variant":
        vs = variants(t)
        idx = [n for n, _ in vs].index(p[1])
        if v.shape[1] == idx:
            for q, c, ct in zip(p[2], v.kids, vs[idx][1]):
                bindings(q, c, ct, out)


def bound_vars(p, t, out):
    """static list of (name, type) bound by p (left side of or-patterns)"""
    k = p[0]
    if k == "var":
        out.append((p[1], t))
    elif k == "or":
        bound_vars(p[1], t, out)
    elif k == "tuple" or k == "struct":
        tys = t[1] if t[0] == "tuple" else [ft for _, ft in STRUCTS[t[1]]]
        for q, ct in zip(p[1] if k == "tuple" else p[2], tys):
            bound_vars(q, ct, out)
    elif k == "variant":
        vs = variants(t)
        idx = [n for n, _ in vs].index(p[1])
        for q, ct in zip(p[2], vs[idx][1]):
            bound_vars(q, ct, out)


# ---------------------------------------------------------------- pattern enumeration
class PatGen:
    def __init__(self):
        self.n = 0

    def fresh(self):
        self.n += 1
        return "x%d" % self.n

    def leaf_pats(self, t, with_vars):
        ps = [("wild",)]
        if with_vars and t in ("bool", "int"):
            ps.append(("var", None))
        if t == "bool":
            ps += [("lit", "true", True), ("lit", "false", False)]
        elif t == "int":
            # a nested or-pattern (alternatives inside a component, e.g. `(0 | 7, 0 | 7)`)
            ps += [("lit", "0", 0), ("lit", "7", 7), ("or", ("lit", "0", 0), ("lit", "7", 7))]
        elif t == "float":
            # two spellings of one value, and two adjacent doubles (0.1 and the next double after it): literals are compared by value, exactly
            ps += [("lit", "1.0", 1.0), ("lit", "1.00", 1.0), ("lit", "2.5", 2.5), ("lit", "0.1", 0.1), ("lit", "0.10000000000000002", 0.10000000000000002)]
        elif t == "string":
            ps += [("lit", '"a"', "a"), ("lit", '""', "")]
        elif t == "void":
            ps += [("lit", "nil", None)]
        return ps

    def pats(self, t, depth, with_vars):
        if isinstance(t, str):
            return self.leaf_pats(t, with_vars)
        out = [("wild",)]
        if depth <= 0:
            return out
        if t[0] in ("tuple", "struct"):
            tys = t[1] if t[0] == "tuple" else [ft for _, ft in STRUCTS[t[1]]]
            for combo in itertools.product(*[self.pats(x, depth - 1, with_vars) for x in tys]):
                out.append(("tuple", list(combo)) if t[0] == "tuple" else ("struct", t[1], list(combo)))
        else:
            for vn, fts in variants(t):
                for combo in itertools.product(*[self.pats(x, depth - 1, with_vars) for x in fts]):
                    out.append(("variant", vn, list(combo)))
        return out


def name_vars(p, counter):
    """give fresh names to ('var', None) placeholders"""
    k = p[0]
    if k == "var":
        counter[0] += 1
        return ("var", "x%d" % counter[0])
    if k == "tuple":
        return ("tuple", [name_vars(q, counter) for q in p[1]])
    if k in ("variant", "struct"):
        return (k, p[1], [name_vars(q, counter) for q in p[2]])
    if k == "or":
        c1 = [counter[0]]
        l = name_vars(p[1], c1)
        c2 = [counter[0]]
        r = name_vars(p[2], c2)  # same names on both sides
        counter[0] = max(c1[0], c2[0])
        return ("or", l, r)
    return p


TYPES = [
    "bool", ("tuple", ["bool", "bool"]), "int", ("tuple", ["int", "bool"]), ("enum", "Shape"), ("option", "bool"),
    ("struct", "Rec"), "float", "string", ("tuple", [("option", "bool"), "bool"]), ("tuple", [("enum", "Shape"), "bool"]),
    ("option", ("tuple", ["bool", "int"])), "void", ("tuple", ["bool", "void"]), ("tuple", ["int", "int"]), ("tuple", ["int", "bool", "void"]), ("enum", "Ev"),
]


def arm_lists(t, rng, count, max_arms=3, with_vars=True, exhaustive_limit=None):
    g = PatGen()
    depth = 2
    base = g.pats(t, depth, with_vars)
    # or-patterns: a few combinations of variable-free alternatives
    novars = [p for p in g.pats(t, depth, False)]
    ors = []
    for _ in range(min(6, len(novars))):
        a, b = rng.choice(novars), rng.choice(novars)
        ors.append(("or", a, b))
    pool = base + ors
    lists = []
    if exhaustive_limit and len(pool) ** 2 <= exhaustive_limit:
        for n in (1, 2):
            for combo in itertools.product(pool, repeat=n):
                lists.append(list(combo))
    # every pattern that contains a nested or-pattern appears at least once as a first arm (followed by a wildcard)
    def has_nested_or(p, top=True):
        if p[0] == "or":
            return (not top) or has_nested_or(p[1], False) or has_nested_or(p[2], False)
        if p[0] == "tuple":
            return any(has_nested_or(q, False) for q in p[1])
        if p[0] in ("variant", "struct"):
            return any(has_nested_or(q, False) for q in p[2])
        return False
    nested = [p for p in base if has_nested_or(p)]
    for p in nested[:24]:
        lists.append([p, ("wild",)])
    count += len(nested[:24])
    seen = set()
    tries = 0
    while len(lists) < count and tries < count * 20:
        tries += 1
        n = rng.randint(1, max_arms)
        arms = [rng.choice(pool) for _ in range(n)]
        # bias towards exhaustive lists: often end with a wildcard
        if rng.random() < 0.5:
            arms[-1] = ("wild",)
        key = str(arms)
        if key in seen:
            continue
        seen.add(key)
        lists.append(arms)
    out = []
    for arms in lists:
        named = []
        for p in arms:
            named.append(name_vars(p, [0]))
        out.append(named)
    return out


def gen_function(name, t, arms):
    lines = ["fn %s(v: %s) -> array<int> {" % (name, tname(t)), "  match v {"]
    for i, p in enumerate(arms):
        bv = []
        bound_vars(p, t, bv)
        elems = [str(i + 1)]
        for n, ty in bv:
            elems.append("if %s { 1 } else { 0 }" % n if ty == "bool" else n)
        lines.append("    %s -> [%s]" % (pat_str(p), ", ".join(elems)))
    lines += ["  }", "}"]
    return "\n".join(lines) + "\n"


def dummy_value(t):
    if t == "bool":
        return "true"
    if t == "int":
        return "1"
    if t == "float":
        return "1.5"
    if t == "string":
        return '"s"'
    if t == "void":
        return "nil"
    if t[0] == "tuple":
        return "(" + ", ".join(dummy_value(x) for x in t[1]) + ")"
    if t[0] == "struct":
        return "%s(%s)" % (t[1], ", ".join(dummy_value(ft) for _, ft in STRUCTS[t[1]]))
    if t[0] == "enum":
        return "%s.%s" % (t[1], [vn for vn, fts in ENUMS[t[1]] if not fts][0])
    if t[0] == "option":
        return "option.none"


# ---------------------------------------------------------------- checker output
def parse_checker(text, src):
    """-> dict: ok, nonexhaustive (bool), missing [pattern text], redundant_lines [1-based line numbers], other errors"""
    res = {"ok": text.startswith("OK"), "nonexhaustive": False, "missing": [], "redundant_lines": [], "other": []}
    if res["ok"]:
        return res
    blocks = re.split(r"\n(?=error: )", text)
    for b in blocks:
        if "error:" not in b:
            continue
        head = b[b.index("error:"):].splitlines()[0]
        if "doesn't cover every case" in head:
            res["nonexhaustive"] = True
            res["missing"] += re.findall(r"`([^`]*)`", b[b.index("The following cases are missing"):]) if "The following cases are missing" in b else []
        elif "redundant cases" in head:
            last_line = None
            for line in b.splitlines():
                m = re.match(r"^\s*(\d+) │", line)
                if m:
                    last_line = int(m.group(1))
                elif last_line is not None and re.fullmatch(r"\s*-+\s*", line.split("│")[-1]) and "│" in line:
                    res["redundant_lines"].append(last_line)
        else:
            res["other"].append(head)
    return res


# witness patterns printed by the checker: `_`, `true`, `Dot`, `Rect of (_, true)`, `(a, b)`, `some of true`
def parse_witness(text, t):
    toks = re.findall(r"\(|\)|,|=|[A-Za-z_0-9.\"-]+", text)
    pos = [0]

    def peek():
        return toks[pos[0]] if pos[0] < len(toks) else None

    def nxt():
        pos[0] += 1
        return toks[pos[0] - 1]

    def parse(t):
        tk = nxt()
        if tk == "_":
            return ("wild",)
        if tk == "(" and peek() == ")":
            nxt()
            return ("lit", "nil", None)  # `()` is how the checker prints the void value
        if tk == "(":
            items = []
            tys = t[1] if t[0] == "tuple" else [ft for _, ft in STRUCTS[t[1]]] if t[0] == "struct" else None
            i = 0
            while peek() != ")":
                items.append(parse(tys[i] if tys else None))
                i += 1
                if peek() == ",":
                    nxt()
            nxt()
            return ("tuple", items) if t[0] == "tuple" else ("struct", t[1], items)
        if tk in ("true", "false") and t == "bool":
            return ("lit", tk, tk == "true")
        if tk == "nil":
            return ("lit", "nil", None)
        if re.fullmatch(r"-?\d+", tk) and t == "int":
            return ("lit", tk, int(tk))
        # variant name (possibly followed by `of <pat>`) or struct name
        if t is not None and not isinstance(t, str) and t[0] in ("enum", "option"):
            vs = variants(t)
            names = [n for n, _ in vs]
            if tk in names:
                fts = vs[names.index(tk)][1]
                if peek() == "of":
                    nxt()
                    if len(fts) == 1:
                        return ("variant", tk, [parse(fts[0])])
                    inner = parse(("tuple", fts))
                    return ("variant", tk, inner[1] if inner[0] == "tuple" else [("wild",)] * len(fts))
                return ("variant", tk, [("wild",)] * len(fts))
        if t is not None and not isinstance(t, str) and t[0] == "struct" and tk == t[1]:
            # Rec(a = <pat>, b = <pat>)
            fields = STRUCTS[t[1]]
            got = {}
            if nxt() != "(":
                raise ValueError("struct witness without field list: %r" % text)
            while peek() != ")":
                fname = nxt()
                if nxt() != "=":
                    raise ValueError("struct witness field without '=': %r" % text)
                fty = dict(fields)[fname]
                got[fname] = parse(fty)
                if peek() == ",":
                    nxt()
            nxt()
            return ("struct", t[1], [got.get(fn, ("wild",)) for fn, _ in fields])
        raise ValueError("cannot parse witness %r at token %r for type %s" % (text, tk, tname(t) if t else t))
    return parse(t)
