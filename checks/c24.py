"""C24: built-in equality, ordering and hashing are lawful -- engine S over the compiled prelude."""
import os
import sys
import time

sys.path.insert(0, os.path.join(os.path.dirname(os.path.abspath(__file__)), "..", "symex"))
import z3  # noqa: E402
import api  # noqa: E402
import bytecode  # noqa: E402
from svm import InternalFault, Unsupported  # noqa: E402
from vcommon import VERIF, tier  # noqa: E402

# name, Abra type, input type spec(s) (arrays: one spec per length pair), has Ord, literal printer
TYPES = [
    ("int", "int", ["int"], True),
    ("float", "float", ["float"], True),
    ("bool", "bool", ["bool"], True),
    ("string", "string", [("string", 2)], True),
    ("pair_int", "(int, int)", [("tuple", ["int", "int"])], True),
    ("triple_bool", "(bool, bool, bool)", [("tuple", ["bool", "bool", "bool"])], True),
    ("mixed", "(int, bool, string)", [("tuple", ["int", "bool", ("string", 1)])], True),
    ("quad_int", "(int, int, int, int)", [("tuple", ["int", "int", "int", "int"])], True),
    ("arr_int", "array<int>", "array", False),
]
THOROUGH_ONLY = {"quad_int", "mixed"}
NO_HASH = {"float"}  # the prelude has no Hash impl for float
OPS = [("eq", "=="), ("ne", "!="), ("lt", "<"), ("le", "<="), ("gt", ">"), ("ge", ">=")]


def source():
    lines = []
    calls = []
    for name, aty, _spec, has_ord in TYPES:
        for op, sym in OPS:
            if not has_ord and op not in ("eq", "ne"):
                continue
            lines.append("fn vf_%s_%s(a: %s, b: %s) -> bool { a %s b }" % (op, name, aty, aty, sym))
        if name not in NO_HASH:
            lines.append("fn vf_hash_%s(a: %s) -> int { Hash.hash(a) }" % (name, aty))
    # every entry function must be reachable from main to be compiled; the dummy arguments are irrelevant
    dummies = {"int": "1", "float": "1.5", "bool": "true", "string": '"x"', "pair_int": "(1, 2)", "triple_bool": "(true, false, true)",
               "mixed": '(1, true, "x")', "quad_int": "(1, 2, 3, 4)", "arr_int": "[1, 2]"}
    for name, _aty, _spec, has_ord in TYPES:
        d = dummies[name]
        for op, _ in OPS:
            if not has_ord and op not in ("eq", "ne"):
                continue
            calls.append("vf_%s_%s(%s, %s)" % (op, name, d, d))
        if name not in NO_HASH:
            calls.append("vf_hash_%s(%s)" % (name, d))
    return "\n".join(lines) + "\n" + "\n".join(calls) + "\n"


def lit(spec, vals, it=None):
    """Abra literal for a value of type spec given the model values of its leaves (consumed in creation order)."""
    it = it if it is not None else iter(vals)
    if spec == "int":
        v = next(it)
        v = v - (1 << 64) if v >= (1 << 63) else v
        if v == -(1 << 63):
            return "(-9223372036854775807 - 1)"
        return "(%d)" % v if v < 0 else str(v)
    if spec == "bool":
        return "true" if next(it) else "false"
    if spec == "float":
        import struct
        bits = next(it)
        f = struct.unpack("<d", struct.pack("<Q", bits))[0]
        if f != f or f in (float("inf"), float("-inf")):
            return None
        r = repr(f)
        if "e" in r or "inf" in r:
            return None
        if "." not in r:
            r += ".0"
        return "(%s)" % r if f < 0 or r.startswith("-") else r
    if spec[0] == "string":
        ln = next(it)
        bs = [next(it) for _ in range(spec[1])]
        out = ""
        for b in bs[:ln]:
            ch = chr(b)
            if ch == '"' or ch == "\\":
                out += "\\" + ch
            elif ch == "\n":
                out += "\\n"
            elif b < 0x20 or b == 0x7f:
                out += "\\x%02x" % b
            else:
                out += ch
        return '"' + out + '"'
    if spec[0] == "tuple":
        parts = [lit(t, None, it) for t in spec[1]]
        if any(p is None for p in parts):
            return None
        return "(" + ", ".join(parts) + ")"
    if spec[0] == "array":
        parts = [lit(spec[1], None, it) for _ in range(spec[2])]
        if any(p is None for p in parts):
            return None
        return "[" + ", ".join(parts) + "]"
    raise ValueError(spec)


class TypeModel:
    """Path summaries of the seven functions for one input shape, as formulas over fixed leaves (A, B)."""

    def __init__(self, prog, name, spec_a, spec_b, has_ord, machine_stats):
        self.name, self.spec_a, self.spec_b = name, spec_a, spec_b
        self.f = {}
        self.bad = []
        self.paths = 0
        for op, _ in OPS:
            if not has_ord and op not in ("eq", "ne"):
                continue
            m, done, inp = api.call(prog, "vf_%s_%s" % (op, name), lambda i: [i.make(spec_a), i.make(spec_b)], max_paths=4096)
            t, ok, bad = api.summarize_bool(done)
            self.paths += len(done)
            machine_stats["queries"] += m.queries
            machine_stats["solver_s"] += m.solver_s
            if m.bound_hit:
                self.bad.append(("vf_%s_%s" % (op, name), "path/step bound reached"))
            for c, status in bad:
                self.bad.append(("vf_%s_%s" % (op, name), status))
            self.f[op] = (t, inp.leaves, inp.constraints)
        from svm import State
        probe = api.Inputs(State(), "probe")
        probe.make(spec_a)
        self.na = len(probe.leaves)
        self.hash = None
        if name not in NO_HASH:
            m, done, inp = api.call(prog, "vf_hash_%s" % name, lambda i: [i.make(spec_a)], max_paths=4096)
            term, ok, bad = api.summarize_int(done)
            self.paths += len(done)
            machine_stats["queries"] += m.queries
            machine_stats["solver_s"] += m.solver_s
            for c, status in bad:
                self.bad.append(("vf_hash_%s" % name, status))
            self.hash = (term, inp.leaves, inp.constraints)

    def inst(self, op, xs, ys):
        """formula of op applied to leaf tuples xs, ys"""
        t, leaves, cons = self.f[op]
        n = len(xs)
        sub = list(zip(leaves[:n], xs)) + list(zip(leaves[n:], ys))
        return z3.substitute(t, *sub), [z3.substitute(c, *sub) for c in cons]

    def inst_hash(self, xs):
        t, leaves, cons = self.hash
        sub = list(zip(leaves, xs))
        return z3.substitute(t, *sub), [z3.substitute(c, *sub) for c in cons]


def fresh_like(leaves, tag):
    out = []
    for v in leaves:
        if z3.is_bool(v):
            out.append(z3.Bool("%s_%s" % (tag, v)))
        else:
            out.append(z3.BitVec("%s_%s" % (tag, v), v.size()))
    return out


def run(outcome, _harnesses):
    t0 = time.time()
    src = source()
    prog = bytecode.compile_source(src)
    stats = {"queries": 0, "solver_s": 0.0}
    samples = []
    n_laws = n_hold = 0
    thorough = tier() == "thorough"
    rdir = os.path.join(VERIF, "replays", "C24")
    functions = set()
    for name, aty, spec, has_ord in TYPES:
        if name in THOROUGH_ONLY and not thorough:
            continue
        shapes = []
        if spec == "array":
            lens = [0, 1, 2]
            for la in lens:
                shapes.append((("array", "int", la), ("array", "int", la)))
            shapes.append((("array", "int", 1), ("array", "int", 2)))
            shapes.append((("array", "int", 2), ("array", "int", 0)))
        else:
            shapes.append((spec[0], spec[0]))
        for spec_a, spec_b in shapes:
            try:
                tm = TypeModel(prog, name, spec_a, spec_b, has_ord, stats)
            except InternalFault as e:
                key = "%s:internal_fault" % name
                outcome.violation(key, "internal fault while executing comparison code for %s: %s" % (name, e), write_replay(rdir, key, src, str(e)))
                continue
            except Unsupported as e:
                outcome.inconc("type %s: outside the S model: %s" % (name, e))
                continue
            for fn, status in tm.bad:
                if status == "path/step bound reached":
                    outcome.inconc("%s: %s" % (fn, status))
                else:
                    key = "%s:abnormal_%s" % (fn, status)
                    outcome.violation(key, "%s can stop with %s" % (fn, status), write_replay(rdir, key, src, status))
            functions.update("prelude code reached from vf_%s_%s" % (op, name) for op in tm.f)
            same_shape = spec_a == spec_b
            _, leaves, cons = tm.f["eq"]
            n = len(leaves) // 2 if same_shape else None
            # leaf tuples
            la = leaves[: tm.na]
            lb = leaves[tm.na:]
            laws = []
            if same_shape:
                lc = fresh_like(la, "c")
                eq_ab, k1 = tm.inst("eq", la, lb)
                eq_ba, k2 = tm.inst("eq", lb, la)
                eq_aa, k3 = tm.inst("eq", la, la)
                eq_bc, k4 = tm.inst("eq", lb, lc)
                eq_ac, k5 = tm.inst("eq", la, lc)
                ne_ab, _ = tm.inst("ne", la, lb)
                K = k1 + k4 + k5
                laws += [
                    ("== is reflexive", eq_aa, k3),
                    ("== is symmetric", eq_ab == eq_ba, K),
                    ("== is transitive", z3.Implies(z3.And(eq_ab, eq_bc), eq_ac), K),
                    ("!= is the negation of ==", ne_ab == z3.Not(eq_ab), K),
                ]
                if tm.hash is not None:
                    ha, _ = tm.inst_hash(la)
                    hb, _ = tm.inst_hash(lb)
                    laws.append(("equal values have equal hashes", z3.Implies(eq_ab, ha == hb), K))
                if has_ord:
                    lt_ab, _ = tm.inst("lt", la, lb)
                    lt_ba, _ = tm.inst("lt", lb, la)
                    le_ab, _ = tm.inst("le", la, lb)
                    le_ba, _ = tm.inst("le", lb, la)
                    le_bc, _ = tm.inst("le", lb, lc)
                    le_ac, _ = tm.inst("le", la, lc)
                    gt_ab, _ = tm.inst("gt", la, lb)
                    ge_ab, _ = tm.inst("ge", la, lb)
                    laws += [
                        ("a <= b exactly when not b < a", le_ab == z3.Not(lt_ba), K),
                        ("a >= b exactly when b <= a", ge_ab == le_ba, K),
                        ("a > b exactly when b < a", gt_ab == lt_ba, K),
                        ("<= is total", z3.Or(le_ab, le_ba), K),
                        ("<= is transitive", z3.Implies(z3.And(le_ab, le_bc), le_ac), K),
                        ("== exactly when <= both ways", eq_ab == z3.And(le_ab, le_ba), K),
                        ("a < b exactly when a <= b and a != b", lt_ab == z3.And(le_ab, z3.Not(eq_ab)), K),
                    ]
            else:
                eq_ab, k1 = tm.inst("eq", la, lb)
                ne_ab, _ = tm.inst("ne", la, lb)
                laws += [
                    ("arrays of different length are not equal", z3.Not(eq_ab), k1),
                    ("!= is the negation of ==", ne_ab == z3.Not(eq_ab), k1),
                ]
            for lawname, formula, cons in laws:
                n_laws += 1
                s = z3.Solver()
                s.set("timeout", 120000)
                s.add(*cons)
                s.add(z3.Not(formula))
                t1 = time.time()
                r = s.check()
                stats["solver_s"] += time.time() - t1
                stats["queries"] += 1
                entry = {"type": name, "shape": [str(spec_a), str(spec_b)], "law": lawname,
                         "verdict": "holds" if r == z3.unsat else ("violated" if r == z3.sat else "unknown"), "paths": tm.paths}
                if r == z3.unsat:
                    n_hold += 1
                elif r == z3.unknown:
                    outcome.inconc("%s / %s: solver returned unknown" % (name, lawname))
                else:
                    key = "%s:%s" % (name, lawname.replace(" ", "_"))
                    mdl = s.model()
                    va = [val_of(mdl, v) for v in la]
                    vb = [val_of(mdl, v) for v in lb]
                    vc = [val_of(mdl, v) for v in (lc if same_shape else [])]
                    entry["counterexample"] = {"a": va, "b": vb, "c": vc}
                    if outcome.findings.lookup("C24", key) is not None:
                        outcome.violation(key, lawname, None)
                    else:
                        ok, path, note = replay(rdir, key, src, name, spec_a, spec_b, va, vb, vc, has_ord, lawname)
                        entry["replay"] = note
                        if ok:
                            outcome.violation(key, "%s fails for a=%s b=%s c=%s [real VM: %s]" % (lawname, va, vb, vc, note), path)
                        else:
                            outcome.inconc("%s / %s: counterexample %s %s did not reproduce on the real VM (%s)" % (name, lawname, va, vb, note))
                samples.append(entry)
    cov = {
        "evaluations": n_laws,
        "distinct_nontrivial": n_hold,
        "rule": "one evaluation = one law for one type/shape, decided by z3 (unsat of the negation) over the path summaries that the "
                "symbolic bytecode executor extracted from the compiled prelude comparison/hash code; all argument values symbolic "
                "(ints and float bit patterns 64-bit, strings <= 2 ASCII bytes, arrays <= 2 elements); non-trivial = verdict holds",
        "samples": samples[:60],
        "functions_encoded": sorted(functions)[:40],
        "bounds": "types: int, float (all bit patterns), bool, string <= 2 bytes, (int,int), (bool,bool,bool), [thorough: (int,bool,string<=1), "
                  "(int,int,int,int)], array<int> of length <= 2 (Equal/Hash only). Outside: longer strings/arrays, non-ASCII strings, void, user types.",
        "queries": stats["queries"],
        "solver_s": round(stats["solver_s"], 2),
        "programs": 1,
    }
    assumptions = ["the S instruction model agrees with the real VM step() (tied by the K arm harnesses of C15/C16/C17/C26 and by the "
                   "concrete differential run in ./check C02)", "z3's bit-vector semantics"]
    return "model_checking", cov, assumptions


def val_of(mdl, v):
    x = mdl.eval(v, model_completion=True)
    return z3.is_true(x) if z3.is_bool(v) else x.as_long()


def write_replay(rdir, key, src, note):
    os.makedirs(rdir, exist_ok=True)
    path = os.path.join(rdir, key.replace(":", "_").replace("/", "_") + ".abra")
    open(path, "w").write("// C24 %s\n// %s\n%s" % (key, note, src))
    return path


def replay(rdir, key, src, name, spec_a, spec_b, va, vb, vc, has_ord, lawname):
    """Evaluate every function on the concrete counterexample with the REAL VM and re-evaluate the law."""
    a, b = lit(spec_a, va), lit(spec_b, vb)
    c = lit(spec_a, vc) if vc else None
    if a is None or b is None:
        return False, None, "value without a literal spelling (NaN/inf/exponent)"
    ops = [op for op, _ in OPS if has_ord or op in ("eq", "ne")]
    body = [l for l in src.splitlines() if l.startswith("fn ")]
    pairs = [("ab", a, b), ("ba", b, a), ("aa", a, a)]
    if c is not None:
        pairs += [("bc", b, c), ("ac", a, c)]
    if spec_a != spec_b:
        pairs = [("ab", a, b)]
    prog = list(body)
    for tag, x, y in pairs:
        for op in ops:
            prog.append('println("%s_%s=" .. vf_%s_%s(%s, %s))' % (op, tag, op, name, x, y))
    if name not in NO_HASH:
        prog.append('println("hash_a=" .. vf_hash_%s(%s))' % (name, a))
        if spec_a == spec_b:
            prog.append('println("hash_b=" .. vf_hash_%s(%s))' % (name, b))
    text = "\n".join(prog) + "\n"
    res = bytecode.run_source(text)
    os.makedirs(rdir, exist_ok=True)
    path = os.path.join(rdir, key.replace(":", "_").replace(" ", "_") + ".abra")
    open(path, "w").write("// C24 counterexample for: %s (type %s)\n// a=%s b=%s c=%s\n// real VM: %s\n%s" % (lawname, name, a, b, c, res, text))
    if res.get("status") != "done":
        return True, path, "real VM stopped with %s" % res.get("status")
    vals = {}
    for line in res["output"].splitlines():
        if "=" in line:
            k, v = line.split("=", 1)
            vals[k] = v
    g = lambda k: vals.get(k) == "true"  # noqa: E731
    checks = {
        "== is reflexive": lambda: g("eq_aa"),
        "== is symmetric": lambda: g("eq_ab") == g("eq_ba"),
        "== is transitive": lambda: (not (g("eq_ab") and g("eq_bc"))) or g("eq_ac"),
        "!= is the negation of ==": lambda: g("ne_ab") == (not g("eq_ab")),
        "equal values have equal hashes": lambda: (not g("eq_ab")) or vals.get("hash_a") == vals.get("hash_b"),
        "a <= b exactly when not b < a": lambda: g("le_ab") == (not g("lt_ba")),
        "a >= b exactly when b <= a": lambda: g("ge_ab") == g("le_ba"),
        "a > b exactly when b < a": lambda: g("gt_ab") == g("lt_ba"),
        "<= is total": lambda: g("le_ab") or g("le_ba"),
        "<= is transitive": lambda: (not (g("le_ab") and g("le_bc"))) or g("le_ac"),
        "== exactly when <= both ways": lambda: g("eq_ab") == (g("le_ab") and g("le_ba")),
        "a < b exactly when a <= b and a != b": lambda: g("lt_ab") == (g("le_ab") and not g("eq_ab")),
        "arrays of different length are not equal": lambda: not g("eq_ab"),
    }
    holds = checks[lawname]()
    return (not holds), path, "law %s on the real VM (outputs %s)" % ("HOLDS" if holds else "FAILS", vals)
